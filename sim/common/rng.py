"""Seeded randomness: one integer decides everything.

SplitMix64 stream; `derive` maps (VERIF_SEED, check-id, case index, ...) to the seed of
an independent stream, so cases do not depend on worker count or completion order.
No use of Python's `random`, `hash()` or set iteration anywhere in the simulator.
"""
import hashlib

MASK = (1 << 64) - 1


def derive(*parts):
    h = hashlib.sha256(repr(parts).encode()).digest()
    return int.from_bytes(h[:8], "little")


class Rng:
    def __init__(self, seed):
        self.s = seed & MASK

    def next(self):
        self.s = (self.s + 0x9E3779B97F4A7C15) & MASK
        z = self.s
        z = ((z ^ (z >> 30)) * 0xBF58476D1CE4E5B9) & MASK
        z = ((z ^ (z >> 27)) * 0x94D049BB133111EB) & MASK
        return z ^ (z >> 31)

    def below(self, n):
        assert n > 0
        return self.next() % n

    def randint(self, a, b):
        return a + self.below(b - a + 1)

    def chance(self, p):
        return (self.next() >> 11) / float(1 << 53) < p

    def choice(self, seq):
        return seq[self.below(len(seq))]

    def shuffle(self, lst):
        for i in range(len(lst) - 1, 0, -1):
            j = self.below(i + 1)
            lst[i], lst[j] = lst[j], lst[i]
        return lst

    def sample(self, seq, k):
        lst = list(seq)
        self.shuffle(lst)
        return lst[:k]

    def weighted(self, pairs):
        """pairs: [(weight, value), ...] with integer weights"""
        total = sum(w for w, _ in pairs)
        x = self.below(total)
        for w, v in pairs:
            if x < w:
                return v
            x -= w
        raise AssertionError

    def fork(self, *label):
        return Rng(derive(self.next(), *label))

"""setup_cmd: build the framework from files on disk only (offline)."""
import os
import shutil
import subprocess

from . import runner


def main():
    for tool in ("gcc", "g++", "cargo"):
        if shutil.which(tool) is None:
            print("HARNESS-ERROR: %s not found" % tool)
            return 2
    sk = runner.build_simkernel()
    print("simkernel: " + sk)
    binary, secs = runner.build_qmluic()
    print("qmluic: %s (%.1fs)" % (binary, secs))
    try:
        from ..qtworld import build as qtbuild
        qtbuild.setup()
    except ImportError:
        pass
    return 0

"""Proving the simulator itself: determinism, zero alarms across seeds, sensitivity to mutants."""
import glob
import hashlib
import json
import os
import shutil
import subprocess
import sys
import time

from . import runner

CHECK_IDS = ["C15", "C04", "C08", "C18", "C02", "C13", "C16"]
VERIF = runner.VERIF


def _run(args, env_extra=None, timeout=7200):
    env = dict(os.environ)
    env.update(env_extra or {})
    return subprocess.run([sys.executable, os.path.join(VERIF, "bin/verif")] + args, capture_output=True, text=True, env=env, timeout=timeout)


def determinism(rest, seed):
    """each case twice in fresh processes: 1 worker vs 16 workers, two PYTHONHASHSEED values;
    the folded event logs (simkernel call logs, driver transcripts, materialised cases) must be identical"""
    ids = [x for x in rest if x in CHECK_IDS] or CHECK_IDS
    ncases = int(next((x.split("=")[1] for x in rest if x.startswith("cases=")), "48"))
    out_dir = os.path.join(runner.TARGET, "selfcheck")
    os.makedirs(out_dir, exist_ok=True)
    bad = 0
    pairs = 0
    for cid in ids:
        files = []
        for tag, workers, phs in (("a", "1", "0"), ("b", "16", "12345")):
            f = os.path.join(out_dir, "digest-%s-%s.json" % (cid, tag))
            if os.path.exists(f):
                os.unlink(f)
            r = _run(["check", cid, "--cases", str(ncases), "--no-evidence"], {"VERIF_DIGEST": f, "VERIF_WORKERS": workers, "PYTHONHASHSEED": phs, "VERIF_SEED": str(seed)})
            if r.returncode not in (0, 1) or not os.path.exists(f):
                print("determinism %s: run %s failed (rc=%d)\n%s" % (cid, tag, r.returncode, r.stdout[-1500:] + r.stderr[-1500:]))
                return 2
            files.append(json.load(open(f)))
        a, b = files
        diff = [k for k in sorted(a, key=int) if a[k] != b.get(k)]
        pairs += len(a)
        print("determinism %s: %d cases compared (1 worker/PYTHONHASHSEED=0 vs 16 workers/PYTHONHASHSEED=12345), %d differ %s" % (cid, len(a), len(diff), diff[:10]))
        bad += len(diff)
    print("determinism: pairs=%d differing=%d" % (pairs, bad))
    with open(os.path.join(out_dir, "determinism.json"), "w") as f:
        json.dump({"pairs": pairs, "differing": bad, "checks": ids, "cases_per_check": ncases, "seed": seed}, f)
    return 0 if bad == 0 else 2


def seeds(rest, seed):
    """the unchanged tree must be quiet under many VERIF_SEED values"""
    ids = [x for x in rest if x in CHECK_IDS] or CHECK_IDS
    n = int(next((x.split("=")[1] for x in rest if x.startswith("n=")), "20"))
    cases = next((x.split("=")[1] for x in rest if x.startswith("cases=")), None)
    bad = 0
    for cid in ids:
        for s in range(100, 100 + n):
            args = ["check", cid, "--no-evidence"] + (["--cases", cases] if cases else [])
            t0 = time.time()
            r = _run(args, {"VERIF_SEED": str(s)})
            last = (r.stdout.strip().splitlines() or ["?"])[-1]
            print("seeds %s VERIF_SEED=%d rc=%d %.0fs %s" % (cid, s, r.returncode, time.time() - t0, last))
            sys.stdout.flush()
            if r.returncode != 0:
                bad += 1
                print(r.stdout[-3000:])
    print("seeds: alarms=%d" % bad)
    return 0 if bad == 0 else 2


def sensitivity(rest, seed):
    """apply each mutants/*.patch (or seeded/*/patch.diff) to a scratch worktree of /repo; the owning check must exit 1"""
    patches = sorted(glob.glob(os.path.join(VERIF, "mutants", "*.patch"))) + sorted(glob.glob(os.path.join(VERIF, "seeded", "*", "patch.diff")))
    only = [x for x in rest if not x.startswith("all") and not x.startswith("shard=")]
    run_all = "all-checks" in rest
    if only:
        patches = [p for p in patches if any(o in p for o in only)]
    wt = "/tmp/verif-sens-wt"
    for x in rest:
        if x.startswith("shard="):      # shard=i/n: every n-th patch starting at i, in a worktree of its own
            i, n = x[6:].split("/")
            patches = patches[int(i)::int(n)]
            wt += "-" + i
    tdir = os.path.join(runner.TARGET, "qmluic-" + hashlib.sha256(wt.encode()).hexdigest()[:10])
    rows = []
    try:
        subprocess.run(["git", "-C", runner.DEFAULT_REPO, "worktree", "remove", "--force", wt], capture_output=True)
        r = subprocess.run(["git", "-C", runner.DEFAULT_REPO, "worktree", "add", "-f", "--detach", wt, "HEAD"], capture_output=True, text=True)
        if r.returncode != 0:
            print("cannot create worktree: " + r.stderr)
            return 2
        if not os.path.exists(tdir) and os.path.exists(os.path.join(runner.TARGET, "qmluic")):
            shutil.copytree(os.path.join(runner.TARGET, "qmluic"), tdir, symlinks=True)
        for p in patches:
            name = os.path.basename(os.path.dirname(p)) if p.endswith("patch.diff") else os.path.basename(p)[:-6]
            owner = None
            if p.endswith("patch.diff"):
                meta = json.load(open(os.path.join(os.path.dirname(p), "meta.json")))
                owner = meta["property"]
            else:
                owner = name.split("-")[0].upper()
            subprocess.run(["git", "-C", wt, "checkout", "-q", "--", "."], capture_output=True)
            a = subprocess.run(["git", "-C", wt, "apply", p], capture_output=True, text=True)
            if a.returncode != 0:
                rows.append((name, owner, "patch does not apply: " + a.stderr.strip()[:200]))
                continue
            targets = CHECK_IDS if run_all else [owner]
            for cid in targets:
                t0 = time.time()
                r = _run(["check", cid, "--no-evidence", "--repo-for-selfcheck", wt], {"VERIF_SEED": str(seed)})
                keys = [l for l in r.stdout.splitlines() if l.startswith("violation keys")]
                verdict = {0: "quiet", 1: "VIOLATION", 2: "harness-error"}.get(r.returncode, "rc=%d" % r.returncode)
                rows.append((name, cid + ("*" if cid == owner else ""), "%s %.0fs %s" % (verdict, time.time() - t0, keys[0][:200] if keys else "")))
                print("sensitivity %-40s %-5s %s" % rows[-1])
                sys.stdout.flush()
    finally:
        subprocess.run(["git", "-C", runner.DEFAULT_REPO, "worktree", "remove", "--force", wt], capture_output=True)
        shutil.rmtree(tdir, ignore_errors=True)
    missed = [r for r in rows if r[1].endswith("*") and not r[2].startswith("VIOLATION")]
    print("sensitivity: %d runs, owner misses: %d" % (len(rows), len(missed)))
    for m in missed:
        print("  MISSED %s %s %s" % m)
    return 0 if not missed else 1


def main(what, rest, seed):
    if what == "determinism":
        return determinism(rest, seed)
    if what == "seeds":
        return seeds(rest, seed)
    if what == "sensitivity":
        return sensitivity(rest, seed)
    print("unknown selfcheck " + what)
    return 2

"""Case fan-out, building from the working tree, evidence, replay files, exit codes.

A *check* is a module with:
    ID, LEVEL, ENGINE
    tier_params(tier) -> dict with at least {"cases": n}
    gen_case(rng, params, index) -> JSON-serialisable dict (fully materialised case)
    run_case(case, env) -> {"violations": [{"cls","key","detail",...}], "stats": {...}, "sample": ...}
    shrink(case, violation) -> iterable of smaller candidate cases   (optional)
    describe() -> dict of static evidence fields (rule, components, assumptions)
"""
import hashlib
import json
import multiprocessing
import os
import shutil
import subprocess
import sys
import time

from . import rng as rngmod

VERIF = os.path.dirname(os.path.dirname(os.path.dirname(os.path.abspath(__file__))))
TARGET = os.path.join(VERIF, "target")
DEFAULT_REPO = "/repo"

EXIT_OK, EXIT_VIOLATION, EXIT_HARNESS = 0, 1, 2


class HarnessError(Exception):
    pass


def log(msg):
    sys.stdout.write(msg + "\n")
    sys.stdout.flush()


# ---------------------------------------------------------------- building

def sha256_file(path):
    h = hashlib.sha256()
    with open(path, "rb") as f:
        for chunk in iter(lambda: f.read(1 << 20), b""):
            h.update(chunk)
    return h.hexdigest()


def build_simkernel():
    src = os.path.join(VERIF, "sim/kernel/simkernel.c")
    out = os.path.join(TARGET, "bin/simkernel")
    os.makedirs(os.path.dirname(out), exist_ok=True)
    if not os.path.exists(out) or os.path.getmtime(out) < os.path.getmtime(src):
        r = subprocess.run(["gcc", "-O2", "-o", out + ".new", src], capture_output=True, text=True)
        if r.returncode != 0:
            raise HarnessError("gcc simkernel failed:\n" + r.stderr)
        os.replace(out + ".new", out)
    return out


def build_qmluic(repo=DEFAULT_REPO):
    """cargo build --release of the *current working tree*; never uses repo/target."""
    tag = "qmluic" if repo == DEFAULT_REPO else "qmluic-" + hashlib.sha256(repo.encode()).hexdigest()[:10]
    tdir = os.path.join(TARGET, tag)
    env = dict(os.environ)
    env.update({"CARGO_NET_OFFLINE": "true", "CARGO_TARGET_DIR": tdir})
    env.pop("RUSTFLAGS", None)
    t0 = time.time()
    r = subprocess.run(["cargo", "build", "--offline", "--release", "--bin", "qmluic"],
                       cwd=repo, env=env, capture_output=True, text=True)
    if r.returncode != 0:
        raise HarnessError("cargo build of %s failed:\n%s" % (repo, r.stderr[-4000:]))
    binary = os.path.join(tdir, "release/qmluic")
    if not os.path.exists(binary):
        raise HarnessError("no binary at " + binary)
    return binary, time.time() - t0


def repo_head(repo=DEFAULT_REPO):
    try:
        r = subprocess.run(["git", "-C", repo, "rev-parse", "HEAD"], capture_output=True, text=True)
        d = subprocess.run(["git", "-C", repo, "status", "--porcelain"], capture_output=True, text=True)
        return r.stdout.strip() + ("+dirty" if d.stdout.strip() else "")
    except Exception:
        return "unknown"


# ---------------------------------------------------------------- scratch space

def scratch_root():
    base = "/dev/shm" if os.path.isdir("/dev/shm") and os.access("/dev/shm", os.W_OK) else "/tmp"
    return base


class Env:
    """What a case needs to run: binaries, type info, a private scratch slot."""

    def __init__(self, qmluic, simkernel, repo, run_tag):
        self.qmluic = qmluic
        self.simkernel = simkernel
        self.repo = repo
        self.metatypes = os.path.join(repo, "contrib/metatypes")
        self.run_tag = run_tag
        self._slot = None

    def slot(self):
        """Per-process scratch directory with a path of fixed length (so that a case
        runs under the same path length whichever worker picks it up)."""
        if self._slot is None:
            root = os.path.join(scratch_root(), "vf-%s" % self.run_tag)
            os.makedirs(root, exist_ok=True)
            k = 0
            while True:
                p = os.path.join(root, "w%03d" % k)
                try:
                    os.mkdir(p)
                    break
                except FileExistsError:
                    k += 1
            self._slot = p
        return self._slot

    def fresh_dir(self, name):
        p = os.path.join(self.slot(), name)
        if os.path.exists(p):
            shutil.rmtree(p)
        os.makedirs(p)
        return p


_G = {}


def _worker_init(check_name, envargs):
    import importlib
    _G["check"] = importlib.import_module(check_name)
    _G["env"] = Env(*envargs)


def _worker_run(job):
    index, case_seed, params = job
    check = _G["check"]
    env = _G["env"]
    t0 = time.time()
    try:
        from ..cliworld import kernel as _k
        if os.environ.get("VERIF_DIGEST"):
            _k.DIGEST["h"] = hashlib.sha256()
        case = check.gen_case(rngmod.Rng(case_seed), params, index)
        if _k.DIGEST["h"] is not None:
            _k.DIGEST["h"].update(json.dumps(case, sort_keys=True).encode())
        res = check.run_case(case, env)
        if _k.DIGEST["h"] is not None:
            res["digest"] = _k.DIGEST["h"].hexdigest()
        res["index"] = index
        res["case_seed"] = case_seed
        res["wall"] = time.time() - t0
        if res.get("violations"):
            res["case"] = case
        return res
    except Exception as e:  # harness error inside a worker
        import traceback
        return {"index": index, "case_seed": case_seed, "harness_error": traceback.format_exc(), "wall": time.time() - t0}


def merge_stats(dst, src):
    for k, v in src.items():
        if isinstance(v, dict):
            merge_stats(dst.setdefault(k, {}), v)
        elif isinstance(v, (int, float)):
            dst[k] = dst.get(k, 0) + v
        elif isinstance(v, list):
            dst.setdefault(k, [])
            for x in v:
                if len(dst[k]) < 64 and x not in dst[k]:
                    dst[k].append(x)
        else:
            dst[k] = v


# ---------------------------------------------------------------- known findings

def load_known_findings():
    path = os.path.join(VERIF, "KNOWN_FINDINGS.txt")
    out = []
    if not os.path.exists(path):
        return out
    for line in open(path, encoding="utf-8"):
        line = line.strip()
        if not line.startswith("finding:"):
            continue  # "fixed:" lines and comments suppress nothing
        fields = line[len("finding:"):].strip().split(None, 2)
        prop = key = None
        what = ""
        for f in fields[:2]:
            if f.startswith("property="):
                prop = f[len("property="):]
            elif f.startswith("key="):
                key = f[len("key="):]
        if len(fields) > 2:
            what = fields[2]
        if prop and key:
            out.append({"property": prop, "key": key, "what": what})
    return out


# ---------------------------------------------------------------- replay files

def write_replay(check, seed, tier, res, violation, case, minimised, env, binary_sha):
    d = os.path.join(VERIF, "replays")
    os.makedirs(d, exist_ok=True)
    tag = hashlib.sha256(violation["key"].encode()).hexdigest()[:6]
    path = os.path.join(d, "%s-%d-%s.json" % (check.ID, res["case_seed"], tag))
    doc = {
        "property": check.ID, "engine": check.ENGINE, "module": check.__name__,
        "verif_seed": seed, "tier": tier, "case_index": res["index"], "case_seed": res["case_seed"],
        "violation_class": violation["cls"], "violation_key": violation["key"],
        "violation": violation, "minimised": minimised, "case": case,
        "repo_head": repo_head(env.repo), "qmluic_sha256": binary_sha,
    }
    with open(path, "w", encoding="utf-8") as f:
        json.dump(doc, f, indent=1, sort_keys=True, ensure_ascii=False)
    return path


def same_violation(vs, want):
    for v in vs:
        if v["cls"] == want["cls"] and v["key"] == want["key"]:
            return v
    return None


def minimise(check, case, violation, env, budget_s=60.0, max_candidates=200):
    """Greedy shrinking: accept a candidate if it still shows the same violation class+key."""
    if not hasattr(check, "shrink"):
        return case, 0
    t0 = time.time()
    tried = 0
    improved = True
    while improved and time.time() - t0 < budget_s and tried < max_candidates:
        improved = False
        for cand in check.shrink(case, violation):
            if time.time() - t0 >= budget_s or tried >= max_candidates:
                break
            tried += 1
            try:
                r = check.run_case(cand, env)
            except Exception:
                continue
            v2 = same_violation(r.get("violations", []), violation)
            if v2:
                case = cand
                violation = v2  # step indices etc. refer to the smaller case from now on
                improved = True
                break
    return case, tried


# ---------------------------------------------------------------- main driver

def _sweep_stale_scratch():
    """scratch of runs that were killed before they could clean up (older than 6 h)"""
    root = scratch_root()
    try:
        for n in os.listdir(root):
            p = os.path.join(root, n)
            if n.startswith("vf-") and os.path.isdir(p) and time.time() - os.path.getmtime(p) > 6 * 3600:
                shutil.rmtree(p, ignore_errors=True)
    except OSError:
        pass


def run_check(check, tier, seed, repo=DEFAULT_REPO, workers=None, write_evidence=True, case_limit=None):
    t_start = time.time()
    _sweep_stale_scratch()
    log("VERIF_SEED=%d property=%s tier=%s engine=%s" % (seed, check.ID, tier, check.ENGINE))
    try:
        simkernel = build_simkernel()
        binary, build_s = build_qmluic(repo)
        if hasattr(check, "prepare"):
            check.prepare(repo)
    except HarnessError as e:
        log("HARNESS-ERROR: " + str(e))
        return EXIT_HARNESS
    binary_sha = sha256_file(binary)
    log("built %s in %.1fs sha256=%s head=%s" % (binary, build_s, binary_sha[:16], repo_head(repo)))
    params = check.tier_params(tier)
    ncases = params["cases"] if case_limit is None else min(case_limit, params["cases"])
    workers = workers or int(os.environ.get("VERIF_WORKERS", "0")) or min(16, os.cpu_count() or 1)
    run_tag = "%08x" % (rngmod.derive(os.getpid(), time.time_ns()) & 0xFFFFFFFF)
    envargs = (binary, simkernel, repo, run_tag)
    jobs = [(i, rngmod.derive(seed, check.ID, i), params) for i in range(ncases)]
    results = []
    budget = params.get("wall_budget_s")
    ctx = multiprocessing.get_context("fork")
    truncated = False
    try:
        with ctx.Pool(workers, initializer=_worker_init, initargs=(check.__name__, envargs)) as pool:
            for res in pool.imap_unordered(_worker_run, jobs, chunksize=1):
                results.append(res)
                if budget and time.time() - t_start > budget:
                    truncated = True
                    pool.terminate()
                    break
    finally:
        shutil.rmtree(os.path.join(scratch_root(), "vf-%s" % run_tag), ignore_errors=True)
    results.sort(key=lambda r: r["index"])
    if os.environ.get("VERIF_DIGEST"):
        with open(os.environ["VERIF_DIGEST"], "w") as f:
            json.dump({str(r["index"]): r.get("digest") for r in results}, f, indent=0, sort_keys=True)
    if truncated:
        # keep only the contiguous prefix, so that the verdict does not depend on completion order
        done = set(r["index"] for r in results)
        n = 0
        while n in done:
            n += 1
        results = [r for r in results if r["index"] < n]
    herr = [r for r in results if "harness_error" in r]
    if herr:
        log("HARNESS-ERROR in case %d (seed %d):\n%s" % (herr[0]["index"], herr[0]["case_seed"], herr[0]["harness_error"]))
        return EXIT_HARNESS

    stats = {}
    samples = []
    fingerprints = {}
    nontrivial = 0
    for r in results:
        merge_stats(stats, r.get("stats", {}))
        if r.get("sample") is not None and len(samples) < 3:
            samples.append(r["sample"])
        for fp in r.get("fingerprints", []):
            fingerprints[fp] = 1
    nontrivial = len(fingerprints)

    # ---- violations
    env = Env(*envargs)
    known = [k for k in load_known_findings() if k["property"] == check.ID]
    seen_keys = {}
    violations_total = 0
    for r in results:
        for v in r.get("violations", []):
            violations_total += 1
            if v["key"] not in seen_keys:
                seen_keys[v["key"]] = (r, v)
    if seen_keys:
        counts = {}
        for r in results:
            for v in r.get("violations", []):
                counts[v["key"]] = counts.get(v["key"], 0) + 1
        log("violation keys: " + ", ".join("%s x%d" % (k, n) for k, n in sorted(counts.items())))
    exit_code = EXIT_OK
    known_matched = []
    reported = []
    try:
        for key in sorted(seen_keys, key=lambda k: (seen_keys[k][0]["index"], k)):
            r, v = seen_keys[key]
            kf = [k for k in known if k["key"] == key]
            if kf:
                # the failing case is kept as a replay file (not minimised), so that the finding can be re-executed
                kpath = write_replay(check, seed, tier, r, v, r["case"], False, env, binary_sha)
                log("KNOWN-FINDING: property=%s key=%s %s (replay=%s)" % (check.ID, key, kf[0]["what"] or v["detail"][:200], kpath))
                known_matched.append(key)
                continue
            if len(reported) >= 8:
                exit_code = EXIT_VIOLATION
                continue
            case, tried = minimise(check, r["case"], v, env)
            rr = check.run_case(case, env)
            vv = same_violation(rr.get("violations", []), v) or v
            path = write_replay(check, seed, tier, r, vv, case, tried > 0, env, binary_sha)
            # self-replay in a fresh process: a violation that does not replay is a harness error
            rp = subprocess.run([sys.executable, os.path.join(VERIF, "bin/verif"), "replay", path, "--no-build",
                                 "--repo-for-selfcheck", repo], capture_output=True, text=True)
            if rp.returncode != EXIT_VIOLATION:
                log("HARNESS-ERROR: violation %s/%s of case %d did not replay (rc=%d)\n%s\n%s" % (
                    v["cls"], key, r["index"], rp.returncode, rp.stdout[-2000:], rp.stderr[-2000:]))
                log("detail: " + v["detail"][:2000])
                return EXIT_HARNESS
            log("violation class=%s key=%s case=%d seed=%d minimise_candidates=%d" % (v["cls"], key, r["index"], r["case_seed"], tried))
            log("  " + vv["detail"][:1500].replace("\n", "\n  "))
            log("VIOLATION property=%s replay=%s" % (check.ID, path))
            reported.append(key)
            exit_code = EXIT_VIOLATION
    finally:
        shutil.rmtree(os.path.join(scratch_root(), "vf-%s" % run_tag), ignore_errors=True)

    wall = time.time() - t_start
    if write_evidence:
        desc = check.describe()
        evaluations = int(stats.get("runs", len(results)))
        coverage = {
            "evaluations": evaluations,
            "distinct_nontrivial": nontrivial,
            "rule": desc["rule"],
            "samples": samples,
            "cases": len(results),
            "cases_planned": ncases,
            "truncated_by_wall_budget": truncated,
            "cases_per_hour": int(len(results) / max(wall, 1e-6) * 3600),
            "runs_per_hour": int(evaluations / max(wall, 1e-6) * 3600),
            "seeds": {"verif_seed": seed, "first_case_seed": jobs[0][1] if jobs else None, "case_seeds_used": len(results)},
            "sim_steps": stats.get("sim_steps", {}),
            "simulated_time": "no simulated clock: no checked surface has a timer; progress is counted in simulator steps (sim_steps)",
            "faults_fired": stats.get("faults_fired", {}),
            "probes": stats.get("probes", {}),
            "distinct_states": {"count": nontrivial, "fingerprint": desc.get("fingerprint", "")},
            "components": desc.get("components", {}),
            "known_findings_matched": known_matched,
            "exhaustive": False,
        }
        for k, v in stats.items():
            if k not in ("runs", "sim_steps", "faults_fired", "probes"):
                coverage.setdefault("extra", {})[k] = v
        ev = {
            "property_id": check.ID, "tier": tier, "seed": seed, "level": check.LEVEL,
            "coverage": coverage, "assumptions": desc.get("assumptions", []),
            "wall_s": round(wall, 2), "violations": len(reported) + (1 if exit_code == EXIT_VIOLATION and not reported else 0),
            "repo_head": repo_head(repo), "qmluic_sha256": binary_sha,
        }
        os.makedirs(os.path.join(VERIF, "evidence"), exist_ok=True)
        with open(os.path.join(VERIF, "evidence", check.ID + ".json"), "w", encoding="utf-8") as f:
            json.dump(ev, f, indent=1, sort_keys=True, ensure_ascii=False)
    log("property=%s cases=%d runs=%d distinct=%d violations=%d known=%d wall=%.1fs exit=%d" % (
        check.ID, len(results), int(stats.get("runs", 0)), nontrivial, violations_total, len(known_matched), wall, exit_code))
    return exit_code


def replay_file(path, repo=DEFAULT_REPO, build=True):
    import importlib
    doc = json.load(open(path, encoding="utf-8"))
    check = importlib.import_module(doc["module"])
    log("replay property=%s case_seed=%d class=%s key=%s" % (doc["property"], doc["case_seed"], doc["violation_class"], doc["violation_key"]))
    try:
        simkernel = build_simkernel()
        if build:
            binary, _ = build_qmluic(repo)
        else:
            tag = "qmluic" if repo == DEFAULT_REPO else "qmluic-" + hashlib.sha256(repo.encode()).hexdigest()[:10]
            binary = os.path.join(TARGET, tag, "release/qmluic")
        if hasattr(check, "prepare"):
            check.prepare(repo)
    except HarnessError as e:
        log("HARNESS-ERROR: " + str(e))
        return EXIT_HARNESS
    run_tag = "%08x" % (rngmod.derive(os.getpid(), time.time_ns(), "replay") & 0xFFFFFFFF)
    env = Env(binary, simkernel, repo, run_tag)
    try:
        res = check.run_case(doc["case"], env)
    finally:
        shutil.rmtree(os.path.join(scratch_root(), "vf-%s" % run_tag), ignore_errors=True)
    want = {"cls": doc["violation_class"], "key": doc["violation_key"]}
    v = same_violation(res.get("violations", []), want)
    if v:
        log("reproduced: class=%s key=%s" % (v["cls"], v["key"]))
        log("  " + v["detail"][:3000].replace("\n", "\n  "))
        kf = [k for k in load_known_findings() if k["property"] == doc["property"] and k["key"] == v["key"]]
        if kf and all(o["key"] == v["key"] for o in res.get("violations", [])):
            log("KNOWN-FINDING: property=%s key=%s %s" % (doc["property"], v["key"], kf[0]["what"]))
            return EXIT_OK
        log("VIOLATION property=%s replay=%s" % (doc["property"], path))
        return EXIT_VIOLATION
    others = res.get("violations", [])
    if others:
        log("a different violation was observed: " + "; ".join("%s/%s" % (o["cls"], o["key"]) for o in others[:5]))
        log("VIOLATION property=%s replay=%s" % (doc["property"], path))
        return EXIT_VIOLATION
    log("not reproduced on this tree")
    return EXIT_OK

"""C08 — determinism: the same sources, type information and options give byte-identical
outputs and the same set of diagnostics whatever the hash seed, directory order, stack
layout, or company in the same process.

One case = one input document (from the working tree's examples, from the QML snippets of the
repo's own tests, or a generated wide / multi-error document) x N schedules.
"""
import copy
import os
import posixpath
import re

from ..common.rng import Rng
from . import docs, engine, widegen, c04
from .engine import V

ID = "C08"
LEVEL = "exploration"
ENGINE = "cliworld/simkernel"

_CORPUS = {"examples": None, "snippets": None}


def tier_params(tier):
    if tier == "thorough":
        return {"cases": 2400, "schedules": 96, "snippets": "all", "inv_seeds": 10, "wall_budget_s": 3300}
    return {"cases": 300, "schedules": 24, "snippets": 60, "inv_seeds": 4, "wall_budget_s": 600}


SIMTYPES = "@SIMTYPES@"


def prepare(repo):
    """Load the corpus from the working tree (before workers fork)."""
    from ..qtworld import build as qtbuild
    qtbuild.setup(repo)     # synthetic classes: documents of the World-B generator widen the construct coverage
    widegen.load(os.path.join(repo, "contrib/metatypes"))
    ex = {}
    exroot = os.path.join(repo, "examples")
    for dp, dn, fn in os.walk(exroot):
        dn.sort()
        for f in sorted(fn):
            if f.endswith(".qml"):
                rel = os.path.relpath(os.path.join(dp, f), repo)
                ex[rel] = open(os.path.join(dp, f), encoding="utf-8").read()
    _CORPUS["examples"] = ex
    snippets = []
    for d in ("tests",):
        tdir = os.path.join(repo, d)
        if not os.path.isdir(tdir):
            continue
        for f in sorted(os.listdir(tdir)):
            if not f.endswith(".rs"):
                continue
            text = open(os.path.join(tdir, f), encoding="utf-8").read()
            for m in re.finditer(r'r###"(.*?)"###', text, re.S):
                body = dedent(m.group(1))
                if body.lstrip().startswith("import qmluic.QtWidgets"):
                    snippets.append((f, body))
    _CORPUS["snippets"] = snippets


def extract_test_snippets(repo):
    """QML documents embedded in the repo's own tests, with what the test expects of them:
    -> [{"file", "body", "expects_error": bool, "mode": "reject"|"generate"|None}]"""
    out = []
    tdir = os.path.join(repo, "tests")
    if not os.path.isdir(tdir):
        return out
    for f in sorted(os.listdir(tdir)):
        if not f.endswith(".rs"):
            continue
        text = open(os.path.join(tdir, f), encoding="utf-8").read()
        ms = list(re.finditer(r'r###"(.*?)"###', text, re.S))
        for i, m in enumerate(ms):
            body = dedent(m.group(1))
            if not body.lstrip().startswith("import qmluic.QtWidgets"):
                continue
            head = text[max(0, m.start() - 60):m.start()]
            tail = text[m.end():ms[i + 1].start() if i + 1 < len(ms) else len(text)]
            # the tail up to the start of the next test function belongs to this snippet
            nxt = tail.find("#[test]")
            if nxt >= 0:
                tail = tail[:nxt]
            err = "unwrap_err()" in tail
            mode = None
            if "translate_str(" in head:
                mode = "reject"
            elif "DynamicBindingHandling::Generate" in tail:
                mode = "generate"
            elif "DynamicBindingHandling::Reject" in tail:
                mode = "reject"
            out.append({"file": f, "body": body, "expects_error": err, "mode": mode})
    return out


def dedent(data):
    n = 0
    while n < len(data) and data[n] in "\n ":
        n += 1
    leader = data[:n]
    body = data[n:]
    if not leader.startswith("\n"):
        leader = "\n" + leader
    if leader.count("\n") != 1:
        return data
    return body.replace(leader, "\n")


def gen_case(rng, params, index):
    ex = _CORPUS["examples"]
    sn = _CORPUS["snippets"]
    exdocs = sorted(ex)
    files = {}
    no_dyn = False
    extra_types = []
    if index < len(exdocs):
        name = "example:" + exdocs[index]
        for rel, text in ex.items():
            files["proj/" + rel] = text
        source = exdocs[index]
        no_dyn = False
    else:
        j = index - len(exdocs)
        nsn = len(sn) if params["snippets"] == "all" else min(params["snippets"], len(sn))
        if j < nsn:
            k = j if params["snippets"] == "all" else rng.below(len(sn))
            f, body = sn[k]
            name = "snippet:%s#%d" % (f, k)
            source = "t/MyType.qml"
            files["proj/" + source] = body
            no_dyn = rng.chance(0.5)
        else:
            kind = rng.weighted([(5, "wide"), (3, "multi-error"), (1, "small"), (4, "qt-general"), (2, "qt-everything"), (1, "qt-observers"), (1, "qt-names"), (4, "project"), (4, "mainwindow"), (1, "mainwindow-errors")])
            extra_types = []
            project = None
            if kind == "project":
                # a multi-directory project of C18's generator: what one document's translation sees must not depend on
                # which other documents (and hence directories) the same process discovered before it
                from . import c18
                pc = c18.gen_case(rng.fork("proj"), {"max_schedules": 1}, index)
                if len(pc["sources"]) >= 2:
                    project = pc
                else:
                    kind = "wide"
            if project:
                pass
            elif kind == "mainwindow":
                text = widegen.gen_mainwindow(rng)
            elif kind == "mainwindow-errors":
                text = widegen.gen_mainwindow(rng, n_errors=rng.randint(2, 6))
            elif kind == "wide":
                text = widegen.gen_wide(rng)
            elif kind == "multi-error":
                text = widegen.gen_wide(rng, n_errors=rng.randint(3, 8))
            elif kind.startswith("qt-"):
                from ..qtworld import gen as qtgen
                extra_types = [SIMTYPES]
                if kind == "qt-general":
                    text = qtgen.Gen(rng.fork("qt")).document(type_name="Wide", handler_p=0.7, max_handlers=3)["qml"]
                elif kind == "qt-everything":
                    # every include-triggering and verbatim-printed construct in one document
                    text = qtgen.doc_operators(rng.fork("qt"), "Wide", everything=True)["qml"]
                elif kind == "qt-observers":
                    text = qtgen.doc_observers(rng.fork("qt"), "Wide")["qml"]
                else:
                    text = qtgen.doc_names(rng.fork("qt"), "Wide")["qml"]
            else:
                text = docs.render(docs.gen_doc(rng, max_widgets=7))[0]
            name = "generated:" + kind
            if project:
                for rel, t in project["files"].items():
                    files[rel] = t
                source = project["sources"][0]
                if project.get("fancy") and rng.chance(0.6):
                    # a component whose root type name is visible through several of its own imports (and documents using
                    # it): which one it is may be unspecified, but it is the same one in every process
                    source = rng.choice([project["fancy"]["source"]] + sorted(project["fancy"]["users"].values()))
                text = None
            else:
                source = "g/Wide.qml"
                files["proj/" + source] = text
            no_dyn = rng.chance(0.15)
    # companions: small accepted documents translated earlier (or later) in the same process
    comps = []
    if index >= len(exdocs) and "project" in name:
        comps = list(project["sources"][1:])
    for k in range(5 - min(len(comps), 3)):
        rel = "comp/Comp%d.qml" % k
        files["proj/" + rel] = docs.render(docs.gen_doc(rng, want_dynamic=not no_dyn))[0]
        comps.append(rel)
    scheds = [{"hash_seed": 1, "dirent_seed": 1, "env_pad": 0, "before": [], "after": [], "dup": False, "spell": source}]
    for _ in range(params["schedules"]):
        nb = rng.weighted([(5, 0), (3, 1), (2, 2), (1, 4)])
        before = rng.sample(comps, nb)
        after = rng.sample([c for c in comps if c not in before], rng.weighted([(7, 0), (3, 1)]))
        scheds.append({"hash_seed": rng.randint(2, 1 << 40), "dirent_seed": rng.randint(2, 1 << 40), "env_pad": rng.randint(0, 4000),
                       "before": before, "after": after, "dup": rng.chance(0.12), "spell": rng.choice([source, "./" + source]),
                       # what lies at the output paths beforehand (here: the right bytes followed by the tail of a longer earlier
                       # version) is not an input
                       "stale_tail": rng.randint(1, 3000) if rng.chance(0.25) else None})
    # whole invocations: the same argv (several sources, two of them faulty) under different seeds must give the same
    # exit status, the same set of files with the same bytes, and the same diagnostics for every file
    bads = []
    for k in range(2):
        d = docs.gen_doc(rng, want_dynamic=not no_dyn)
        kinds = docs.plant_kinds(d)
        kind, where, text = rng.choice(kinds)
        d["plant"] = {"where": where, "text": text, "kind": kind}
        rel = "bad/Bad%s.qml" % "AB"[k]
        files["proj/" + rel] = docs.render(d)[0]
        bads.append(rel)
    invs = []
    for k in range(2):
        srcs = rng.sample(comps, min(len(comps), rng.randint(1, 2))) + [source] + rng.sample(bads, rng.randint(1, 2))
        rng.shuffle(srcs)
        invs.append({"sources": srcs, "seeds": [[rng.randint(2, 1 << 40), rng.randint(2, 1 << 40), rng.randint(0, 3000)] for _ in range(params.get("inv_seeds", 4))]})
    return {"kind": "c08", "name": name, "files": files, "source": source, "no_dyn": no_dyn, "schedules": scheds, "extra_types": extra_types,
            "invocations": invs}


def _simtypes():
    from ..qtworld import build as qtbuild
    return qtbuild.sim_metatypes()


def attribute(stderr, label):
    """diagnostic blocks of `stderr` that point into file `label` -> sorted list of block texts"""
    blocks = c04.parse_diagnostics(stderr)
    mine = []
    for b in blocks:
        if b["file"] is not None and posixpath.normpath(b["file"]) == posixpath.normpath(label):
            mine.append("\n".join(x.rstrip() for x in b["text"]).rstrip())
    return sorted(mine), blocks


def disposition(res, spell, source):
    """what happened to *our* source in this invocation"""
    if res.signal is not None or res.bound:
        return res.disposition()
    procs = [l[len("processing "):].strip() for l in res.stderr.splitlines() if l.startswith("processing ")]
    norm = [posixpath.normpath(p) for p in procs]
    me = posixpath.normpath(source)
    if me not in norm:
        return "not-reached"
    last = len(norm) - 1 - norm[::-1].index(me)
    if res.exit_status == 0 or last < len(norm) - 1:
        return "accepted"
    return "rejected:%s" % res.exit_status


def _bump(d, k, n=1):
    d[k] = d.get(k, 0) + n


def run_case(case, env):
    sb = engine.Sandbox(env)
    viol = []
    stats = {"runs": 0, "sim_steps": {"syscalls_intercepted": 0}, "faults_fired": {}, "probes": {}}
    probes = stats["probes"]
    for rel, text in sorted(case["files"].items()):
        sb.apply({"op": "WRITE", "path": rel, "content": text})
    source = case["source"]
    base = None
    orders = {}
    fps = []
    for k, sc in enumerate(case["schedules"]):
        srcs = list(sc["before"]) + [sc["spell"]] + ([sc["spell"] if sc["spell"] != source else "./" + source] if sc["dup"] else []) + list(sc["after"])
        step = {"op": "GEN", "sources": srcs, "O": "out", "no_dyn": case["no_dyn"], "no_lower": False,
                "extra_types": [_simtypes() if x == SIMTYPES else x for x in case.get("extra_types", [])],
                "hash_seed": sc["hash_seed"], "dirent_seed": sc["dirent_seed"], "env_pad": sc["env_pad"]}
        one = dict(step)
        one["sources"] = [source]
        pred = engine.predicted_outputs(one, sb.root, sb.cwd)
        if sc.get("stale_tail") and base is not None and base["disp"] == "accepted":
            for p in sorted(pred):
                old = base["outs"].get(sb.rel(p))
                if old is not None:
                    with open(p, "wb") as f:
                        f.write(old + old[-(sc["stale_tail"] % max(len(old), 1)) - 1:])
            _bump(probes, "schedules_over_longer_stale_content_at_the_output_paths")
        res = sb.run(step)
        stats["runs"] += 1
        stats["sim_steps"]["syscalls_intercepted"] += len(res.calls)
        outs = {}
        for p in sorted(pred):
            try:
                outs[sb.rel(p)] = open(p, "rb").read()
            except FileNotFoundError:
                outs[sb.rel(p)] = None
        disp = disposition(res, sc["spell"], source)
        mine, blocks = attribute(res.stderr, source)
        # raw order of this source's diagnostics (evidence that the seed reaches qmluic's maps)
        raw = tuple(("\n".join(b["text"]).rstrip()) for b in blocks if b["file"] is not None and posixpath.normpath(b["file"]) == posixpath.normpath(source))
        orders[raw] = 1
        obs = {"disp": disp, "outs": outs, "diags": mine}
        if disp == "not-reached":
            _bump(probes, "schedules_where_a_companion_failed_first")
            continue
        if base is None:
            base = obs
            base_k = k
            if disp == "accepted":
                _bump(probes, "inputs_accepted")
            else:
                _bump(probes, "inputs_rejected")
            if len(mine) >= 2:
                _bump(probes, "inputs_with_2_or_more_diagnostics")
            continue
        desc = "schedule %d (hash_seed=%d dirent_seed=%d env_pad=%d before=%s dup=%s) vs schedule %d" % (
            k, sc["hash_seed"], sc["dirent_seed"], sc["env_pad"], sc["before"], sc["dup"], base_k)
        if obs["disp"] != base["disp"]:
            viol.append(V("determinism", "c08:disposition-differs", "%s: %s became %s\n%s" % (desc, base["disp"], obs["disp"], res.stderr[-500:]), schedule=k))
        for p in sorted(outs):
            if outs[p] != base["outs"][p]:
                kind = "ui" if p.endswith(".ui") else "header"
                viol.append(V("determinism", "c08:%s-bytes-differ" % kind,
                              "%s: output %s differs\n%s" % (desc, p, _firstdiff(base["outs"][p], outs[p])), schedule=k))
        if sc["dup"]:
            # the source is translated twice in this process, so each of its diagnostics is printed twice
            same = sorted(set(obs["diags"])) == sorted(set(base["diags"]))
        else:
            same = obs["diags"] == base["diags"]
        if not same:
            a = [x for x in base["diags"] if x not in obs["diags"]]
            b = [x for x in obs["diags"] if x not in base["diags"]]
            viol.append(V("determinism", "c08:diagnostic-set-differs", "%s: diagnostics differ\nonly in base:\n%s\nonly here:\n%s" % (desc, "\n".join(a[:2]), "\n".join(b[:2])), schedule=k))
        if sc["before"]:
            _bump(probes, "schedules_with_documents_translated_before")
        if sc["dup"]:
            _bump(probes, "schedules_translating_the_same_source_twice")
    # ---- whole-invocation determinism
    import shutil as _sh
    for ik, inv in enumerate(case.get("invocations", [])):
        ref = None
        for sk, (hs, ds, pad) in enumerate([[1, 1, 0]] + inv["seeds"]):
            odir = os.path.join(sb.cwd, "out-inv")
            _sh.rmtree(odir, ignore_errors=True)
            step = {"op": "GEN", "sources": inv["sources"], "O": "out-inv", "no_dyn": case["no_dyn"], "no_lower": False,
                    "extra_types": [_simtypes() if x == SIMTYPES else x for x in case.get("extra_types", [])],
                    "hash_seed": hs, "dirent_seed": ds, "env_pad": pad}
            res = sb.run(step)
            stats["runs"] += 1
            stats["sim_steps"]["syscalls_intercepted"] += len(res.calls)
            tree = {}
            for dp, dn, fn in os.walk(odir):
                dn.sort()
                for f in sorted(fn):
                    p = os.path.join(dp, f)
                    tree[os.path.relpath(p, odir)] = open(p, "rb").read()
            blocks = c04.parse_diagnostics(res.stderr)
            diags = sorted("\n".join(x.rstrip() for x in b["text"]).rstrip() for b in blocks)
            obs = {"disp": res.disposition(), "files": tree, "diags": diags}
            if ref is None:
                ref = obs
                _bump(probes, "whole_invocations_checked")
                if res.exit_status != 0:
                    _bump(probes, "whole_invocations_with_a_failing_source")
                continue
            desc = "invocation %s under hash_seed=%d dirent_seed=%d env_pad=%d vs the same argv under seed 1" % (inv["sources"], hs, ds, pad)
            if obs["disp"] != ref["disp"]:
                viol.append(V("determinism", "c08:invocation-exit-differs", "%s: %s vs %s" % (desc, obs["disp"], ref["disp"]), invocation=ik))
            if sorted(obs["files"]) != sorted(ref["files"]):
                viol.append(V("determinism", "c08:invocation-file-set-differs", "%s: files written %s vs %s" % (desc, sorted(obs["files"]), sorted(ref["files"])), invocation=ik))
            else:
                for f in sorted(obs["files"]):
                    if obs["files"][f] != ref["files"][f]:
                        viol.append(V("determinism", "c08:invocation-bytes-differ", "%s: %s differs\n%s" % (desc, f, _firstdiff(ref["files"][f], obs["files"][f])), invocation=ik))
            if obs["diags"] != ref["diags"]:
                a = [x for x in ref["diags"] if x not in obs["diags"]]
                b = [x for x in obs["diags"] if x not in ref["diags"]]
                viol.append(V("determinism", "c08:invocation-diagnostics-differ", "%s:\nonly under seed 1:\n%s\nonly here:\n%s" % (desc, "\n".join(a[:2]), "\n".join(b[:2])), invocation=ik))
    if len(orders) > 1:
        _bump(probes, "inputs_whose_diagnostic_order_varied_with_the_schedule")
    if base is not None:
        nb = sum(len(v or b"") for v in base["outs"].values())
        fps.append("%s|%s|%d" % (case["name"], base["disp"], nb))
    sample = {"input": case["name"], "source": source, "no_dynamic_binding": case["no_dyn"], "schedules": len(case["schedules"]),
              "disposition": base["disp"] if base else None, "diagnostics": len(base["diags"]) if base else 0,
              "distinct_diagnostic_orders_seen": len(orders)}
    return {"violations": viol, "stats": stats, "fingerprints": fps, "sample": sample}


def _firstdiff(a, b):
    if a is None or b is None:
        return "one side absent: base=%s here=%s" % (engine._d(a), engine._d(b))
    la, lb = a.decode("utf-8", "replace").splitlines(), b.decode("utf-8", "replace").splitlines()
    for i in range(min(len(la), len(lb))):
        if la[i] != lb[i]:
            return "first differing line %d:\n  base: %s\n  here: %s" % (i + 1, la[i][:160], lb[i][:160])
    return "lengths differ: %d vs %d lines" % (len(la), len(lb))


def shrink(case, violation):
    k = violation.get("schedule")
    if k is not None and len(case["schedules"]) > 2:
        c = copy.deepcopy(case)
        c["schedules"] = [case["schedules"][0], case["schedules"][k]]
        yield c
    if len(case["schedules"]) == 2:
        s = case["schedules"][1]
        for key, val in (("before", []), ("after", []), ("dup", False), ("env_pad", 0), ("dirent_seed", 1)):
            if s[key] != val:
                c = copy.deepcopy(case)
                c["schedules"][1][key] = val
                yield c


def describe():
    return {
        "rule": ("case = one input (every examples/**/*.qml of the working tree inside the whole examples tree; QML snippets "
                 "extracted from the repo's tests/*.rs; generated wide documents with 6-14 bindings per object incl. gadget "
                 "groups, palettes, attached properties, >=3 dynamic bindings and >=2 handlers; multi-error variants with 3-8 "
                 "planted errors) x N schedules (hash seed via getrandom, getdents64 order, stack padding, 0-4 other documents "
                 "translated before it in the same process, the source named twice). Oracle: same per-source disposition, "
                 "byte-identical .ui/.h, same multiset of diagnostic blocks as the first schedule. distinct_nontrivial counts "
                 "distinct inputs (name, disposition, output size) that were actually reached."),
        "fingerprint": "input name | disposition | total output bytes",
        "components": {
            "real": ["qmluic generate-ui release binary built from /repo working tree", "contrib/metatypes/*.json", "examples/ and tests/ corpus of the working tree"],
            "stub": ["system-call boundary (simkernel): getrandom bytes (=> SipHash keys of every std HashMap), getdents64 order, environment padding", "argv"],
        },
        "assumptions": [
            "std's RandomState draws its keys from getrandom(2) (verified: equal seeds give equal diagnostic order, different seeds differ)",
            "diagnostic order is deliberately not compared (the property says 'set')",
        ],
    }

"""C15 — generate-ui writes only where it should, atomically, and only when needed.

Histories of edit / regenerate steps over small projects; every GEN step of a history in
`enumerate` mode is re-run once per kill point of its golden call log (fault enumeration at
system-call granularity), each in a fresh clone of the pre-step state.
"""
import copy
import os
import posixpath

from ..common.rng import Rng
from . import docs, engine, fsmodel
from .engine import V, BOXTOKEN

ID = "C15"
LEVEL = "fault_enumeration"
ENGINE = "cliworld/simkernel"

ERRNOS_BY_CALL = {
    "openat": ["ENOSPC", "EACCES", "EMFILE", "EROFS", "EDQUOT", "EIO"],
    "write": ["ENOSPC", "EIO", "EDQUOT", "EFBIG"],
    "fchmod": ["EPERM", "EIO", "EROFS"],
    "renameat": ["EXDEV", "EACCES", "ENOSPC", "EIO", "EROFS", "EBUSY"],
    "rename": ["EXDEV", "EACCES", "ENOSPC", "EIO"],
    "renameat2": ["EXDEV", "EACCES", "ENOSPC", "EIO"],
    "mkdir": ["ENOSPC", "EACCES", "EROFS", "EDQUOT"],
    "read": ["EIO"],
    "close": ["EIO"],
    "statx": ["EACCES", "EIO"],
    "unlink": ["EACCES", "EIO"],
    "getcwd": ["ENOENT"],
}


def tier_params(tier):
    if tier == "thorough":
        return {"cases": 6000, "recover": "all", "max_steps": 8, "wall_budget_s": 3300}
    return {"cases": 192, "recover": 6, "max_steps": 6, "wall_budget_s": 600}


# ---------------------------------------------------------------- generation

def _spell(rng, rel):
    """ways of naming proj-relative file `rel` on the command line"""
    d, b = posixpath.split(rel)
    weights = [(6, rel), (3, "./" + rel)]
    if d:
        weights += [(2, d + "/./" + b), (1, d + "//" + b), (2, d + "/../" + posixpath.basename(d) + "/" + b)]
        # goes above the starting point and comes back: escapes the output directory although it does not start with ..
        up = "/".join([".."] * (len(d.split("/")) + 1))
        weights += [(2, d + "/" + up + "/proj/" + rel)]
    weights.append((2, BOXTOKEN + "/proj/" + rel))
    return rng.weighted(weights)


def gen_case(rng, params, index):
    nsrc = rng.weighted([(6, 1), (3, 2), (1, 3)])
    stems = rng.sample(docs.STEMS, nsrc)
    dirs = ["", "", "sub", "sub/deeper", "Other Dir", "UPPER"]
    no_dyn = rng.chance(0.2)
    no_lower = rng.chance(0.3)
    O = rng.weighted([(5, None), (3, "out"), (2, "out/deep/er"), (1, "."), (1, "./gen/"), (1, "sub"),
                      (1, BOXTOKEN + "/proj/absout"), (1, "../outside")])
    srcs = []
    model = {}
    files = {}
    if nsrc >= 2 and rng.chance(0.25):
        # the same file name in two directories of one invocation: each source still has its own outputs
        stems[1] = stems[0]
    for st in stems:
        d = rng.choice(dirs)
        rel = (d + "/" if d else "") + st + ".qml"
        while rel in model:
            d = rng.choice(dirs)
            rel = (d + "/" if d else "") + st + ".qml"
        doc = docs.gen_doc(rng, want_dynamic=not no_dyn or rng.chance(0.15))
        model[rel] = doc
        files["proj/" + rel] = docs.render(doc)[0]
        srcs.append(rel)
    steps = [{"op": "WRITE", "path": p, "content": c} for p, c in sorted(files.items())]
    # bystanders that must never change
    steps.append({"op": "WRITE", "path": "proj/README.txt", "content": "bystander\n"})
    steps.append({"op": "WRITE", "path": "bystander.ui", "content": "<ui/>\n"})
    if rng.chance(0.3):
        steps.append({"op": "MKDIR", "path": "proj/out"})

    def gen_step(fault):
        spelled = [_spell(rng, s) for s in srcs]
        if O is not None and (fault["mode"] != "none" or rng.chance(0.6)):
            # keep most -O invocations acceptable (escaping spellings are refused before any I/O; contained '..' may be)
            spelled = [rng.choice([s, "./" + s] + ([posixpath.dirname(s) + "/./" + posixpath.basename(s)] if "/" in s else [])) for s in srcs]
        if rng.chance(0.3):
            rng.shuffle(spelled)
        return {"op": "GEN", "sources": spelled, "O": O, "no_dyn": no_dyn, "no_lower": no_lower,
                "hash_seed": rng.randint(1, 1 << 30), "dirent_seed": rng.randint(1, 1 << 30),
                "env_pad": rng.randint(0, 300), "fault": fault}

    def pick_fault():
        k = rng.weighted([(40, "none"), (15, "benign"), (15, "error"), (30, "enumerate")])
        if k == "none":
            return {"mode": "none"}
        if k == "benign":
            return {"mode": "benign", "picks": [[rng.randint(0, 1 << 20), rng.choice(["EINTR", "SHORT_READ", "SHORT_WRITE"]), rng.randint(1, 64)]
                                                for _ in range(rng.randint(1, 3))]}
        if k == "error":
            return {"mode": "error", "pick": rng.randint(0, 1 << 20), "errpick": rng.randint(0, 1 << 20), "adopt": rng.chance(0.7)}
        return {"mode": "enumerate", "adopt": rng.randint(0, 1 << 20) if rng.chance(0.7) else None, "recover_pick": rng.randint(0, 1 << 20)}

    nsteps = rng.randint(3, params["max_steps"])
    pending_recovery = False
    first = True
    for _ in range(nsteps):
        # optional environment perturbations before the GEN
        if not first:
            r = rng.below(11)
            if r == 10:
                r = 7   # more weight on pre-created things at output paths
            if pending_recovery and rng.chance(0.5):
                # after a crash the next version of a source is often much shorter or much longer than what the dead run
                # was writing: whatever that run left behind must not leak into the next outputs
                rel = rng.choice(srcs)
                model[rel] = docs.gen_doc(rng, min_widgets=2, max_widgets=2, want_dynamic=not no_dyn) if rng.chance(0.7) else docs.gen_doc(rng, min_widgets=6, max_widgets=7, want_dynamic=not no_dyn)
                steps.append({"op": "WRITE", "path": "proj/" + rel, "content": docs.render(model[rel])[0], "edit": "resize"})
                r = 99
            if r < 5:
                rel = rng.choice(srcs)
                model[rel], _op = docs.edit(rng, model[rel])
                steps.append({"op": "WRITE", "path": "proj/" + rel, "content": docs.render(model[rel])[0], "edit": _op})
            elif r < 6:
                steps.append({"op": "TOUCH", "path": "proj/" + rng.choice(srcs)})
            elif r < 7:
                # delete one output (by prediction for the plain spelling)
                g = {"sources": [rng.choice(srcs)], "O": O, "no_dyn": no_dyn, "no_lower": no_lower}
                if not engine.must_refuse(g):
                    outs = sorted(engine.predicted_outputs(g, "/B", "/B/proj"))
                    steps.append({"op": "DELETE", "path": posixpath.relpath(rng.choice(outs), "/B")})
            elif r < 8:
                # stale / foreign content at an output path, or a leftover temp file of an earlier crash
                g = {"sources": [rng.choice(srcs)], "O": O, "no_dyn": no_dyn, "no_lower": no_lower}
                if not engine.must_refuse(g):
                    outs = sorted(engine.predicted_outputs(g, "/B", "/B/proj"))
                    o = posixpath.relpath(rng.choice(outs), "/B")
                    k = rng.below(4)
                    if k == 0:
                        steps.append({"op": "WRITE", "path": o, "content": "stale foreign content %d\n" % rng.randint(0, 99)})
                    elif k == 1:
                        steps.append({"op": "LINKOUT", "path": o, "kind": rng.choice(["symlink", "hardlink", "symlink", "hardlink", "dir"]), "victim": "victims/v%d.txt" % rng.randint(0, 9)})
                    else:
                        steps.append({"op": "WRITE", "path": posixpath.join(posixpath.dirname(o), ".tmpAb3dE9"), "content": "leftover"})
        first = False
        if pending_recovery:
            fault = {"mode": "none"}
            pending_recovery = False
        else:
            fault = pick_fault()
            pending_recovery = fault["mode"] in ("error", "enumerate")
        steps.append(gen_step(fault))
    # the history always ends with a fault-free regeneration and an identical re-run
    last = gen_step({"mode": "none"})
    steps.append(last)
    rerun = copy.deepcopy(last)
    rerun["rerun"] = True
    steps.append(rerun)
    return {"kind": "c15", "steps": steps, "recover": params["recover"]}


# ---------------------------------------------------------------- execution

def kill_plans(golden, pred, sb):
    """All crash points of a step, read off the golden call log."""
    calls = golden.calls
    m = None
    for c in calls:
        if c.is_mutation() and any(posixpath.normpath(t).startswith(sb.root) for t in c.targets()):
            m = c.idx
            break
    plans = []
    if m is None:
        # nothing is ever written (e.g. outputs up to date): one representative before exit
        if calls:
            plans.append(((calls[-1].idx, "KILL_BEFORE"), calls[-1]))
        return plans
    # one representative of "not run yet"
    plans.append(((max(m - 1, 0), "KILL_BEFORE"), calls[max(m - 1, 0)]))
    for c in calls:
        if c.idx < m:
            continue
        plans.append(((c.idx, "KILL_BEFORE"), c))
        if c.name in ("write", "pwrite64") and c.fdpath and not c.fdpath.startswith("<") and c.length:
            for n in sorted(set([0, 1, c.length // 2, c.length - 1])):
                if 0 <= n < c.length:
                    plans.append(((c.idx, "TORN_WRITE", n), c))
    plans.append(((calls[-1].idx, "KILL_AFTER"), calls[-1]))
    return plans


def error_candidates(golden, sb):
    out = []
    for c in golden.calls:
        if c.name not in ERRNOS_BY_CALL:
            continue
        ts = c.targets() or c.paths
        if c.fdpath and c.fdpath.startswith("<"):
            continue
        if c.name in ("read", "close", "statx") and not any(posixpath.normpath(t).startswith(sb.root) for t in ([c.fdpath] if c.fdpath else c.paths)):
            continue
        if c.name == "openat" and not any(posixpath.normpath(t).startswith(sb.root) for t in c.paths):
            continue
        out.append(c)
    return out


def benign_candidates(golden, kind, sb):
    out = []
    for c in golden.calls:
        if not engine.in_scope(c, sb):
            continue
        if kind == "EINTR" and c.name in ("read", "write", "openat"):
            out.append(c)
        elif kind == "SHORT_READ" and c.name == "read" and (c.result or 0) > 1:
            out.append(c)
        elif kind == "SHORT_WRITE" and c.name == "write" and (c.length or 0) > 1:
            out.append(c)
    return out


def _bump(d, k, n=1):
    d[k] = d.get(k, 0) + n


def run_case(case, env):
    sb = engine.Sandbox(env)
    viol = []
    stats = {"runs": 0, "sim_steps": {"syscalls_intercepted": 0}, "faults_fired": {}, "probes": {}}
    probes = stats["probes"]
    fps = []
    trace = []

    def account(res):
        stats["runs"] += 1
        stats["sim_steps"]["syscalls_intercepted"] += len(res.calls)
        for c in res.calls:
            if c.fault:
                _bump(stats["faults_fired"], c.fault + ":" + c.name)

    def add(vs, si, **kw):
        for v in vs:
            v["step"] = si
            v.update(kw)
            viol.append(v)

    prev_gen, prev_exit = None, None
    for si, step in enumerate(case["steps"]):
        if step["op"] != "GEN":
            sb.apply(step)
            prev_gen = None      # anything between two GEN steps means the second one is not an identical re-run
            continue
        if step["fault"]["mode"] != "none":
            prev_gen = None
        pred = engine.predicted_outputs(step, sb.root, sb.cwd) if not engine.must_refuse(step) else {}
        relpred = {sb.rel(p): v for p, v in pred.items()}
        mode = step["fault"]["mode"]
        sb.age()
        cfg = "O=%s|nl=%d|nd=%d|sp=%s" % (_oshape(step["O"]), bool(step.get("no_lower")), bool(step.get("no_dyn")),
                                          ",".join(sorted(set(_sshape(s) for s in step["sources"]))))
        if mode == "none":
            before = sb.snap()
            res = sb.run(step)
            account(res)
            after = sb.snap()
            add(engine.eval_clean_run(sb, step, before, after, res, pred), si)
            nchanged = sum(1 for p in relpred if before.content(p) != after.content(p))
            nsame = sum(1 for p in relpred if p in before.files and before.content(p) == after.content(p))
            if engine.must_refuse(step):
                _bump(probes, "refused_invocations")
            elif res.exit_status != 0:
                _bump(probes, "clean_run_nonzero_exit")
                stats.setdefault("notes", []).append("clean nonzero: %s" % ([l for l in res.stderr.splitlines() if l.startswith("error")][:1]))
            if len(relpred) >= 2 and nchanged == 1 and nsame >= 1:
                _bump(probes, "steps_exactly_one_output_changed")
            if nsame and res.exit_status == 0:
                _bump(probes, "compare_then_write_suppressed_a_write", nsame)
            if any(fsmodel.is_temp(p) for p in before.files):
                _bump(probes, "runs_that_met_a_leftover_temp_file")
            is_rerun = bool(step.get("rerun")) and prev_gen is not None and _same_invocation(prev_gen, step) and prev_exit == 0
            if is_rerun:
                _bump(probes, "reruns")
                ch = [p for p in engine.diff_paths(before, after) if not (engine.is_scratch(sb, p, relpred, before) and res.exit_status != 0)]
                if ch:
                    add([V("untouched", "rerun:touched", "identical re-run changed %s" % ch)], si)
            prev_gen, prev_exit = step, res.exit_status
            # ---- freshness: what a successful run leaves at the output paths is what the same invocation writes
            # where no output exists yet (an output kept because "nothing changed" must really be unchanged)
            if res.exit_status == 0 and relpred and not engine.must_refuse(step) and (
                    any(p in before.files for p in relpred) or any(p not in sb.case_files and p not in relpred for p in before.files)):
                _bump(probes, "freshness_twins_run")
                add(engine.freshness(sb, step, relpred, after, account), si)
            fps.append(cfg + "|clean|chg=%d|same=%d|exit=%s" % (nchanged, nsame, res.disposition()))
            trace.append({"step": si, "argv": engine.argv_for(step, env, "@BOX@")[3:], "fault": "none", "exit": res.disposition(),
                          "changed_outputs": nchanged})
            continue

        # ---- faulted step: golden twin first
        sb.park()
        try:
            sb.clone_in()
            g_before = sb.snap()
            golden = sb.run(step)
            account(golden)
            g_after = sb.snap()
            add(engine.eval_clean_run(sb, step, g_before, g_after, golden, pred, label="[golden twin] "), si)
            sb.drop_clone()
            if engine.must_refuse(step) or golden.exit_status != 0:
                _bump(probes, "faulted_step_skipped_golden_nonzero")
                continue
            plans = []
            if mode == "enumerate":
                plans = kill_plans(golden, pred, sb)
            elif mode == "single":
                plans = [(tuple(step["fault"]["plan"]), None)]
            elif mode == "error":
                cands = error_candidates(golden, sb)
                muts = [c for c in cands if c.is_mutation() or c.name in ("renameat", "rename", "renameat2", "fchmod", "mkdir")]
                if muts and step["fault"]["pick"] % 10 < 7:
                    cands = muts       # most hard errors land on the calls that change the output tree
                if cands:
                    c = cands[step["fault"]["pick"] % len(cands)]
                    errs = ERRNOS_BY_CALL[c.name]
                    if c.name == "write" and (c.length or 0) > 2 and step["fault"]["errpick"] % 3 == 0:
                        # the disk fills up in the middle: part of the data is accepted, the continuation fails
                        plans = [([(c.idx, "SHORT_WRITE", max(1, c.length // 3)), (c.idx + 1, "ERR", "ENOSPC")], c)]
                    else:
                        plans = [((c.idx, "ERR", errs[step["fault"]["errpick"] % len(errs)]), c)]
            elif mode == "benign":
                used = set()
                fl = []
                for pick, kind, n in step["fault"]["picks"]:
                    cands = [c for c in benign_candidates(golden, kind, sb) if c.idx not in used]
                    if cands:
                        c = cands[pick % len(cands)]
                        used.add(c.idx)
                        fl.append((c.idx, kind) if kind == "EINTR" else (c.idx, kind, n))
                if fl:
                    plans = [(sorted(fl), None)]
            adopt_i = None
            if plans and mode in ("enumerate", "error") and step["fault"].get("adopt") not in (None, False):
                adopt_i = (step["fault"]["adopt"] if mode == "enumerate" else 0) % len(plans)
            recover = case.get("recover", 6)
            rec_set = None
            if recover != "all" and mode == "enumerate" and len(plans) > recover:
                r = Rng(step["fault"].get("recover_pick", 1))
                rec_set = set(r.sample(range(len(plans)), recover))
            for pi, (plan, call) in enumerate(plans):
                faults = plan if isinstance(plan, list) else [plan]
                kind = mode if mode != "single" else "single"
                fdesc = "+".join(" ".join(str(x) for x in f) for f in faults)
                sb.clone_in()
                before = sb.snap()
                res = sb.run(step, faults=faults)
                account(res)
                after = sb.snap()
                vs, pattern = engine.eval_faulted_run(sb, step, before, g_after, after, res, pred, golden.exit_status, fdesc)
                add(vs, si, fault=[list(f) for f in faults])
                killed = res.signal is not None
                if mode == "benign":
                    if res.exit_status != 0:
                        _bump(probes, "benign_fault_nonzero_exit")
                        stats.setdefault("notes", []).append("benign %s -> %s: %s" % (fdesc, res.disposition(), res.stderr.strip().splitlines()[-1:]))
                    else:
                        # ordinary POSIX behaviour excuses nothing: the same files are rewritten as in the golden run
                        add(engine.eval_clean_run(sb, step, before, after, res, pred, label="[under %s] " % fdesc), si, fault=[list(f) for f in faults])
                if call is not None and killed:
                    cls = engine.classify_path(sb, (call.targets() or call.paths or [call.fdpath])[0] if (call.targets() or call.paths or call.fdpath) else None, pred)
                    # between "temp file created" and "rename": the window that matters
                    if any(fsmodel.is_temp(p) and p not in before.files for p in after.files):
                        _bump(probes, "kills_with_temp_file_in_flight")
                    fps.append(cfg + "|%s|%s:%s|%s" % (faults[0][1], call.name, cls, pattern))
                else:
                    fps.append(cfg + "|%s|%s|exit=%s" % (mode, pattern, res.disposition()))
                if "old" in pattern and "new" in pattern:
                    _bump(probes, "faulted_runs_leaving_one_output_old_one_new")
                if mode == "error" and res.exit_status not in (0, None):
                    _bump(probes, "hard_error_reported_nonzero")
                if mode == "error" and res.exit_status == 0:
                    _bump(probes, "hard_error_absorbed_exit0")
                    what = plan[2] if not isinstance(plan, list) else "+".join(str(f[1]) for f in plan)   # a plan is one fault or a list of them
                    stats.setdefault("notes", []).append("absorbed %s on %s" % (what, call.name + ":" + str((call.targets() or call.paths or [call.fdpath])[0]).split("/")[-1]))
                do_recover = (mode in ("enumerate", "error", "single")) and pi != adopt_i and (rec_set is None or pi in rec_set)
                if do_recover and not vs:
                    # recovery within one step once faults stop
                    had_tmp = any(fsmodel.is_temp(p) for p in after.files)
                    sb.age()
                    b2 = sb.snap()
                    r2 = sb.run(step)
                    account(r2)
                    a2 = sb.snap()
                    if had_tmp:
                        _bump(probes, "recovery_runs_that_met_a_leftover_temp_file")
                    if r2.exit_status != 0:
                        add([V("recovery", "recover:nonzero-exit", "fault-free run after %s exits %s\n%s" % (fdesc, r2.disposition(), r2.stderr[-400:]))], si, fault=[list(f) for f in faults])
                    for p in sorted(relpred):
                        if a2.content(p) != g_after.content(p):
                            add([V("recovery", "recover:not-golden", "after %s and a fault-free run, output %s differs from golden: want=%s got=%s"
                                   % (fdesc, p, engine._d(g_after.content(p)), engine._d(a2.content(p))))], si, fault=[list(f) for f in faults])
                    add(engine.eval_clean_run(sb, step, b2, a2, r2, pred, label="[recovery after %s] " % fdesc), si, fault=[list(f) for f in faults])
                    sb.age()
                    b3 = sb.snap()
                    r3 = sb.run(step)
                    account(r3)
                    a3 = sb.snap()
                    ch = engine.diff_paths(b3, a3)
                    if ch:
                        add([V("untouched", "rerun:touched", "re-run after recovery from %s changed %s" % (fdesc, ch))], si, fault=[list(f) for f in faults])
                    _bump(probes, "recoveries_checked")
                if pi == adopt_i:
                    sb.keep_clone()
                else:
                    sb.drop_clone()
            trace.append({"step": si, "argv": engine.argv_for(step, env, "@BOX@")[3:], "fault": mode, "plans": len(plans)})
            _bump(probes, "steps_" + mode)
            if mode == "enumerate":
                _bump(probes, "kill_points_enumerated", len(plans))
        finally:
            sb.unpark(adopt_kept=True)
    sample = None
    if trace:
        sample = {"history": trace[:8], "files": sorted(sb.snap().files)[:12]}
    return {"violations": viol, "stats": stats, "fingerprints": sorted(set(fps)), "sample": sample}


def _same_invocation(a, b):
    return all(a.get(k) == b.get(k) for k in ("sources", "O", "no_dyn", "no_lower"))


def _oshape(o):
    if o is None:
        return "-"
    if o.startswith(BOXTOKEN):
        return "abs"
    if o.startswith(".."):
        return "up"
    return "rel%d" % len([c for c in o.split("/") if c not in ("", ".")])


def _sshape(s):
    if s.startswith(BOXTOKEN):
        return "abs"
    c = s.split("/")
    return ("dot" if c[0] == "." else "") + ("up" if ".." in c else "") + ("dd" if "" in c[1:] else "") + ("mid" if "." in c[1:] else "") + str(len([x for x in c if x not in (".", "")]))


# ---------------------------------------------------------------- shrinking

def shrink(case, violation):
    steps = case["steps"]
    vstep = violation.get("step")
    # 2. cut the tail
    if vstep is not None and vstep + 1 < len(steps):
        c = copy.deepcopy(case)
        c["steps"] = c["steps"][:vstep + 1]
        yield c
    # 3. drop single earlier steps (from the back)
    for i in range(len(steps) - 1, -1, -1):
        if vstep is not None and i == vstep:
            continue
        if steps[i]["op"] == "WRITE" and steps[i]["path"].endswith(".qml") and not any(
                s["op"] == "WRITE" and s["path"] == steps[i]["path"] for s in steps[:i]):
            continue  # keep the first version of each source
        c = copy.deepcopy(case)
        del c["steps"][i]
        yield c
    # 4. simplify options of the failing step
    if vstep is not None and vstep < len(steps) and steps[vstep]["op"] == "GEN":
        g = steps[vstep]
        if len(g["sources"]) > 1:
            for k in range(len(g["sources"])):
                c = copy.deepcopy(case)
                for s in c["steps"]:
                    if s["op"] == "GEN":
                        s["sources"] = [g["sources"][k]] if g["sources"][k] in s["sources"] else s["sources"][:1]
                yield c
        for key, val in (("O", None), ("no_lower", False), ("no_dyn", False), ("env_pad", 0)):
            if g.get(key) != val:
                c = copy.deepcopy(case)
                for s in c["steps"]:
                    if s["op"] == "GEN":
                        s[key] = val
                yield c


    # 5. finally pin the concrete fault (after structural reductions, which renumber calls)
    if vstep is not None and violation.get("fault") and steps[vstep]["fault"]["mode"] not in ("single",):
        c = copy.deepcopy(case)
        c["steps"] = c["steps"][:vstep + 1]
        c["steps"][vstep]["fault"] = {"mode": "single", "plan": violation["fault"][0]}
        yield c


def describe():
    return {
        "rule": ("case = seeded history of WRITE/DELETE/TOUCH/GEN steps over a 1-3 source project (option "
                 "combinations -O/--no-dynamic-binding/--no-lowercase-file-name, 6 source spellings); a GEN step "
                 "in enumerate mode is re-run once per kill point of its golden call log (KILL_BEFORE every call "
                 "from just before the first output-tree mutation to exit_group, TORN_WRITE at 0/1/half/len-1 of "
                 "every file write, KILL_AFTER the last call), each in a fresh clone, followed by a fault-free "
                 "recovery run and an identical re-run. distinct_nontrivial counts distinct tuples (option shape, "
                 "source spelling shape, fault kind, system call and path class at the fault, old/new pattern of "
                 "the outputs afterwards) observed in runs that reached the output phase. After an adopted crash the next version of a source is often much shorter or much longer (resize edits); the freshness twin removes predicted outputs and every file that is not part of the case."),
        "fingerprint": "option shape | spelling shape | fault kind | syscall:path-class | per-output old/new/same pattern",
        "components": {
            "real": ["qmluic generate-ui release binary built from /repo working tree (argument parsing, discovery, type map, uigen, tempfile/rustix write path)",
                     "contrib/metatypes/*.json", "kernel file system (tmpfs)"],
            "stub": ["system-call boundary (simkernel ptrace supervisor): getrandom bytes, getdents64 order, injected kills/errors/short transfers",
                     "argv, cwd, environment chosen by the orchestrator"],
        },
        "assumptions": [
            "crash model is process kill: what survives is the effect of completed system calls (no page-cache loss; the property does not promise power-fail durability)",
            "golden twin (same binary, same seeds, no fault) supplies 'complete new content'; placement, untouched-ness, old-or-new and confinement rules are independent of repo code",
            "the tracee is single-threaded (simkernel aborts with a harness error otherwise)",
        ],
    }

"""History engine for World A: a sandbox directory evolves through WRITE / DELETE / TOUCH /
GEN steps; GEN runs the real binary under the simulated kernel, possibly with a fault plan,
possibly in a clone of the sandbox (golden twin / per-kill-point clones).

Independent rules (not repo code) live here: file-name rule, path join, refusal rule,
confinement, old-or-new, untouched-ness.
"""
import os
import posixpath
import shutil

from . import fsmodel, kernel

BOXTOKEN = "@BOX@"


def subst(s, box):
    return s.replace(BOXTOKEN, box)


# ---------------------------------------------------------------- independent prediction

def split_components(p):
    return [c for c in p.split("/") if c != ""]


def must_refuse(step):
    """With --output-directory, absolute sources and sources that escape their parent ('..' taking the path above
    where it started) must be refused - that is what the property states."""
    if step.get("O") is None:
        return False
    for s in step["sources"]:
        if s.startswith("/") or s.startswith(BOXTOKEN):
            return True
        depth = 0
        for c in split_components(s):
            if c == ".":
                continue
            depth += -1 if c == ".." else 1
            if depth < 0:
                return True
    return False


def may_refuse(step):
    """A source containing '..' that stays inside (sub/../X.qml) is refused by qmluic's stricter filter; the property
    neither demands nor forbids that, so both a clean refusal and a correctly placed translation are accepted."""
    if step.get("O") is None or must_refuse(step):
        return False
    return any(".." in split_components(s) for s in step["sources"])


def predicted_outputs(step, box, cwd):
    """-> {abs path: (source spelling, "ui"|"h")} by the documented rule: x.ui and uisupport_x.h
    next to the source, or under the same relative path inside the output directory;
    lower-cased file name unless --no-lowercase-file-name; the directory part never altered."""
    out = {}
    for s in step["sources"]:
        sp = subst(s, box)
        d, base = posixpath.split(sp)
        stem = base[:-4] if base.lower().endswith(".qml") else posixpath.splitext(base)[0]
        ui = stem + ".ui"
        h = "uisupport_" + stem + ".h"
        if not step.get("no_lower"):
            ui = "".join(ch.lower() if "A" <= ch <= "Z" else ch for ch in ui)
            h = "".join(ch.lower() if "A" <= ch <= "Z" else ch for ch in h)
        names = [(ui, "ui")]
        if not step.get("no_dyn"):
            names.append((h, "h"))
        for name, kind in names:
            p = posixpath.join(d, name) if d else name
            if step.get("O") is not None:
                p = posixpath.join(subst(step["O"], box), p)
            ap = posixpath.normpath(posixpath.join(cwd, p))
            out[ap] = (s, kind)
    return out


def ancestors(p):
    res = []
    while True:
        p = posixpath.dirname(p)
        if p in ("", "/"):
            break
        res.append(p)
    return res


def argv_for(step, env, box):
    a = ["generate-ui", "--foreign-types", env.metatypes]
    for extra in step.get("extra_types", []):
        a += ["--foreign-types", subst(extra, box)]
    if step.get("O") is not None:
        a += ["-O", subst(step["O"], box)]
    if step.get("no_dyn"):
        a.append("--no-dynamic-binding")
    if step.get("no_lower"):
        a.append("--no-lowercase-file-name")
    a += [subst(s, box) for s in step["sources"]]
    return a


# ---------------------------------------------------------------- sandbox with clones

class Sandbox:
    """`root` is the one absolute path at which every run of a case happens.  The main line
    of the history can be parked while clones run at that same path."""

    def __init__(self, env):
        self.env = env
        self.slot = env.slot()
        self.root = os.path.join(self.slot, "box")
        self.parked = os.path.join(self.slot, "parked")
        self.keep = os.path.join(self.slot, "keep")
        for p in (self.root, self.parked, self.keep):
            if os.path.exists(p):
                shutil.rmtree(p)
        os.makedirs(self.root)
        self.cwd = os.path.join(self.root, "proj")
        os.makedirs(self.cwd)
        self.clock = 1_000_000_000 * 1_000_000_000  # 2001-09-09, far in the past
        self.case_files = set()   # paths (relative to root) that the case itself wrote: everything else was made by qmluic

    def park(self):
        os.rename(self.root, self.parked)

    def clone_in(self):
        fsmodel.clone(self.parked, self.root)

    def drop_clone(self):
        shutil.rmtree(self.root)

    def keep_clone(self):
        if os.path.exists(self.keep):
            shutil.rmtree(self.keep)
        os.rename(self.root, self.keep)

    def unpark(self, adopt_kept=False):
        if adopt_kept and os.path.exists(self.keep):
            os.rename(self.keep, self.root)
            shutil.rmtree(self.parked)
        else:
            if os.path.exists(self.keep):
                shutil.rmtree(self.keep)
            os.rename(self.parked, self.root)

    def age(self):
        self.clock += 3600 * 1_000_000_000
        fsmodel.age_files(self.root, self.clock)

    def snap(self):
        return fsmodel.snapshot(self.root)

    def rel(self, abspath):
        return os.path.relpath(abspath, self.root)

    def run(self, step, faults=()):
        return kernel.run(self.env, self.cwd, argv_for(step, self.env, self.root),
                          hash_seed=step.get("hash_seed", 1), dirent_seed=step.get("dirent_seed", 1),
                          env_pad=step.get("env_pad", 0), faults=faults, timeout_ms=step.get("timeout_ms", 60000), cpu_ms=step.get("cpu_ms"))

    def apply(self, step):
        op = step["op"]
        if op in ("WRITE", "LINKOUT"):
            self.case_files.add(os.path.normpath(step["path"]))
            if step.get("victim"):
                self.case_files.add(os.path.normpath(step["victim"]))
        elif op == "DELETE":
            self.case_files.discard(os.path.normpath(step["path"]))
        if op == "WRITE":
            p = os.path.join(self.root, step["path"])
            os.makedirs(os.path.dirname(p), exist_ok=True)
            if os.path.isdir(p) and not os.path.islink(p):
                shutil.rmtree(p)
            elif os.path.islink(p):
                os.unlink(p)
            with open(p, "w", encoding="utf-8", newline="") as f:
                f.write(step["content"])
        elif op == "DELETE":
            p = os.path.join(self.root, step["path"])
            if os.path.isdir(p) and not os.path.islink(p):
                shutil.rmtree(p)
            elif os.path.exists(p):
                os.unlink(p)
        elif op == "MKDIR":
            os.makedirs(os.path.join(self.root, step["path"]), exist_ok=True)
        elif op == "LINKOUT":
            # the output path becomes a symlink or a hard link to a precious file outside the output tree:
            # replace-by-rename leaves the precious file alone, writing in place would go through the link
            victim = os.path.join(self.root, step["victim"])
            os.makedirs(os.path.dirname(victim), exist_ok=True)
            with open(victim, "w") as f:
                f.write("precious %s\n" % step["victim"])
            p = os.path.join(self.root, step["path"])
            os.makedirs(os.path.dirname(p), exist_ok=True)
            if os.path.isdir(p) and not os.path.islink(p):
                shutil.rmtree(p)
            elif os.path.lexists(p):
                os.unlink(p)
            if step["kind"] == "symlink":
                os.symlink(os.path.relpath(victim, os.path.dirname(p)), p)
            elif step["kind"] == "dir":
                os.makedirs(os.path.join(p, "keep"))     # a non-empty directory sits where the output should go
                with open(os.path.join(p, "keep", "precious.txt"), "w") as f:
                    f.write("precious\n")
            else:
                os.link(victim, p)
        elif op == "TOUCH":
            p = os.path.join(self.root, step["path"])
            if os.path.exists(p):
                os.utime(p, None)
        else:
            raise ValueError(op)


# ---------------------------------------------------------------- oracles

def V(cls, key, detail, **kw):
    d = {"cls": cls, "key": key, "detail": detail}
    d.update(kw)
    return d


def diff_paths(a, b):
    """paths whose content or identity differs between two snapshots"""
    res = []
    for p in sorted(set(a.files) | set(b.files)):
        fa, fb = a.files.get(p), b.files.get(p)
        if fa is None or fb is None or fa[0] != fb[0] or fa[1] != fb[1] or fa[2] != fb[2]:
            res.append(p)
    return res


def is_scratch(sb, p, relpred, before):
    """a file that is not an output, was not put there by the case itself, and sits in the directory of an output: scratch
    space of this or of an earlier (killed) run.  qmluic uses .tmpXXXXXX next to the destination; another naming scheme,
    or re-using a leftover, would be just as legitimate as long as the outputs come out right."""
    dirs = set(posixpath.dirname(o) for o in relpred)
    return p not in relpred and p not in sb.case_files and posixpath.dirname(p) in dirs


def check_confinement(sb, step, res, pred):
    """Monitor over the call log: every output-tree mutation names a predicted output, a temp
    file in the directory of one, or creates a directory needed to hold one."""
    out = []
    allowed_files = set(pred)
    allowed_dirs = set()
    for p in pred:
        allowed_dirs.add(posixpath.dirname(p))
        for a in ancestors(p):
            allowed_dirs.add(a)
    for c in res.calls:
        if not c.is_mutation():
            continue
        if c.name in ("mkdir", "mkdirat"):
            for t in c.targets():
                t = posixpath.normpath(t)
                if t not in allowed_dirs:
                    out.append(V("confinement", "confine:mkdir-outside",
                                 "mkdir of %s is not needed for any output of this step\n%s" % (t, c.line), call=c.idx))
            continue
        targets = c.targets()
        if c.name in ("rename", "renameat", "renameat2", "link", "linkat") and len(targets) == 2:
            pass  # both source and destination must be in place
        for t in targets:
            t = posixpath.normpath(t)
            base = posixpath.basename(t)
            if t in allowed_files:
                continue
            if posixpath.dirname(t) in set(posixpath.dirname(p) for p in pred):
                continue    # next to an output: the output itself, or scratch of the run (what remains is judged on the snapshots)
            out.append(V("confinement", "confine:mutation-outside",
                         "call mutates %s, which is not in the directory of any predicted output\n%s\npredicted: %s"
                         % (t, c.line, sorted(pred)), call=c.idx))
    return out


def eval_clean_run(sb, step, before, after, res, pred, label=""):
    """Oracles for a fault-free GEN (file set, untouched, no temp left, refusal)."""
    out = []
    relpred = {sb.rel(p): v for p, v in pred.items()}
    if may_refuse(step) and res.exit_status not in (0, None) and not [c for c in res.calls if c.is_mutation()] \
            and not diff_paths(before, after):
        return out      # refused cleanly
    if must_refuse(step):
        if res.exit_status in (0, None):
            out.append(V("refusal", "refuse:accepted-escape",
                         "%ssources %s with -O %s must be refused, got %s" % (label, step["sources"], step["O"], res.disposition())))
        ch = diff_paths(before, after)
        if ch or after.dirs != before.dirs:
            out.append(V("refusal", "refuse:mutated",
                         "%srefused invocation changed the file system: %s dirs %s -> %s" % (label, ch, before.dirs, after.dirs)))
        muts = [c.line for c in res.calls if c.is_mutation()]
        if muts:
            out.append(V("refusal", "refuse:mutation-call", "%srefused invocation issued mutations:\n%s" % (label, "\n".join(muts[:5]))))
        return out
    out += check_confinement(sb, step, res, pred)
    changed = diff_paths(before, after)
    for p in changed:
        if p in relpred:
            continue
        if is_scratch(sb, p, relpred, before):
            if res.exit_status == 0 and p not in before.files and p in after.files:
                out.append(V("file-set", "fileset:temp-left", "%stemp file %s left behind by a successful run" % (label, p)))
            # a run that fails (e.g. rename onto a directory) keeps its temp file because main() leaves through
            # process::exit; the property speaks of successfully translated sources, so that is recorded, not flagged
        else:
            out.append(V("file-set", "fileset:unexpected-change",
                         "%spath %s was created/modified/removed but is not an output of sources %s (predicted %s)"
                         % (label, p, step["sources"], sorted(relpred))))
    newdirs = [d for d in after.dirs if d not in before.dirs]
    okdirs = set()
    for p in relpred:
        okdirs.update(ancestors(p))
    for d in newdirs:
        if d not in okdirs:
            out.append(V("file-set", "fileset:unexpected-dir", "%sdirectory %s created but holds no output" % (label, d)))
    for d in before.dirs:
        if d not in after.dirs:
            out.append(V("file-set", "fileset:dir-removed", "%sdirectory %s removed" % (label, d)))
    if res.exit_status == 0:
        for p in sorted(relpred):
            if p not in after.files:
                out.append(V("file-set", "fileset:missing-output", "%sexit 0 but output %s of %s does not exist" % (label, p, relpred[p][0])))
            elif p in before.files and before.files[p][0] == after.files[p][0]:
                if before.ident(p) != after.ident(p):
                    out.append(V("untouched", "untouched:rewritten-unchanged",
                                 "%soutput %s has unchanged content but was rewritten (inode/mtime %s -> %s)"
                                 % (label, p, before.ident(p), after.ident(p))))
    return out


def outputs_state(snap, relpred):
    return {p: snap.content(p) for p in relpred}


def eval_faulted_run(sb, step, before, golden_after, after, res, pred, golden_exit, fault_kind, label=""):
    """Oracles for a run with an injected fault: old-or-new per output, nothing else touched,
    confinement, honest success."""
    out = []
    relpred = {sb.rel(p): v for p, v in pred.items()}
    out += check_confinement(sb, step, res, pred)
    pattern = []
    for p in sorted(relpred):
        old = before.content(p)
        new = golden_after.content(p)
        cur = after.content(p)
        if cur == old and cur == new:
            pattern.append("same")
        elif cur == old:
            pattern.append("old")
        elif cur == new:
            pattern.append("new")
        else:
            pattern.append("BAD")
            out.append(V("atomic-replace", "atomic:neither-old-nor-new",
                         "%safter %s, output %s holds neither its complete old nor its complete new content: "
                         "old=%s new=%s now=%s\nlast calls:\n%s"
                         % (label, fault_kind, p, _d(old), _d(new), _d(cur), "\n".join(c.line for c in res.calls[-6:]))))
    for p in diff_paths(before, after):
        if p in relpred:
            continue
        if is_scratch(sb, p, relpred, before):
            continue  # a killed or failed process may leave its scratch file; confinement was checked on the log
        out.append(V("atomic-replace", "atomic:bystander-changed", "%safter %s, unrelated path %s changed" % (label, fault_kind, p)))
    if res.exit_status == 0 and golden_exit == 0:
        for p in sorted(relpred):
            if after.content(p) != golden_after.content(p):
                out.append(V("honest-success", "honest:exit0-wrong-content",
                             "%sexit 0 under %s but output %s differs from the fault-free result: want=%s got=%s"
                             % (label, fault_kind, p, _d(golden_after.content(p)), _d(after.content(p)))))
    return out, "/".join(pattern)


def _d(b):
    if b is None:
        return "<absent>"
    return "%d bytes %r…" % (len(b), b[:40])


def classify_path(sb, path, pred):
    """call class for reach probes"""
    if path is None:
        return "other"
    if path.startswith("<"):
        return "stdio"
    p = posixpath.normpath(path)
    if p in pred or posixpath.basename(p).startswith(".tmp#"):
        return "out"
    if any(p == a or p in ancestors(q) for q in pred for a in [posixpath.dirname(q)]):
        return "outdir"
    if p.endswith(".qml"):
        return "src"
    if p.endswith(".json") or "metatypes" in p:
        return "types"
    if p.startswith(sb.root):
        return "box"
    return "other"


def in_scope(call, sb):
    """Faults are injected only into calls on the sandbox or the type information, never into the
    dynamic loader's or the runtime's start-up I/O (/lib, /etc, /proc): that is not qmluic."""
    ps = ([call.fdpath] if call.fdpath else []) + list(call.paths)
    ps = [p for p in ps if p and not p.startswith("<")]
    if not ps:
        return False
    return all(posixpath.normpath(p).startswith(sb.root) or posixpath.normpath(p).startswith(sb.env.metatypes) for p in ps)


def freshness(sb, step, relpred, after, account=None):
    """What a successful run leaves at the output paths must be what the same invocation writes where nothing that an
    earlier qmluic run produced exists (no outputs, no leftovers): an output kept because "nothing changed" must really
    be unchanged, and nothing of an earlier run may leak into a later one.  -> list of violations"""
    out = []
    sb.park()
    try:
        sb.clone_in()
        for dp, dn, fn in os.walk(sb.root):
            for f in fn:
                p = os.path.join(dp, f)
                rel = os.path.normpath(os.path.relpath(p, sb.root))
                if rel in relpred or rel not in sb.case_files:
                    os.unlink(p)
        fr = sb.run(step)
        if account:
            account(fr)
        fresh = sb.snap()
        sb.drop_clone()
    finally:
        sb.unpark()
    if fr.exit_status == 0:
        for p in sorted(relpred):
            if fresh.content(p) != after.content(p):
                from . import c08
                out.append(V("freshness", "fresh:stale-output", "exit 0, but output %s is not what this invocation generates from the current sources "
                             "(kept from, or polluted by, an earlier run?): here %s, freshly generated %s\n%s"
                             % (p, _d(after.content(p)), _d(fresh.content(p)), c08._firstdiff(fresh.content(p), after.content(p)))))
    else:
        out.append(V("freshness", "fresh:only-succeeds-over-old-outputs", "exit 0 over the existing tree, but the same invocation exits %s where no earlier output exists\n%s"
                     % (fr.disposition(), fr.stderr[-400:])))
    return out

"""C04 (I/O clause) — a document with an unknown, ill-typed or unsupported binding is
diagnosed inside that binding, the command exits non-zero, and neither output of that source
is created or modified.  Explored over histories in which outputs of earlier successful runs
may already exist, with several sources per invocation and benign transfer faults.

The other clause of C04 (every binding of an accepted document lands in exactly one of
.ui / header) is a pure function of the input and is not decided here.
"""
import copy
import posixpath
import re

from . import docs, engine, fsmodel
from .engine import V, BOXTOKEN

ID = "C04"
LEVEL = "exploration"
ENGINE = "cliworld/simkernel"


def tier_params(tier):
    if tier == "thorough":
        return {"cases": 60000, "wall_budget_s": 3300}
    return {"cases": 1200, "wall_budget_s": 600}


_ERR_SNIPPETS = {"reject": [], "generate": []}


def prepare(repo):
    """documents that the repo's own tests expect to be rejected, by translation mode"""
    from . import c08
    _ERR_SNIPPETS["reject"] = []
    _ERR_SNIPPETS["generate"] = []
    for s in c08.extract_test_snippets(repo):
        if s["expects_error"] and s["mode"] in _ERR_SNIPPETS and "syntax" not in s["file"]:
            _ERR_SNIPPETS[s["mode"]].append(s)


def gen_case(rng, params, index):
    nsrc = rng.weighted([(5, 1), (3, 2), (2, 3)])
    stems = rng.sample(docs.STEMS, nsrc)
    no_dyn = rng.chance(0.15)
    no_lower = rng.chance(0.3)
    O = rng.weighted([(5, None), (3, "out"), (2, "out/deep/er"), (1, "."), (1, BOXTOKEN + "/proj/absout")])
    # every source lives in its own directory so that a faulty file cannot affect the
    # acceptance of another argument through directory discovery
    dirs = ["", "sub", "sub/deeper", "Other Dir", "UPPER"]
    rng.shuffle(dirs)
    srcs, model = [], {}
    steps = []
    for k, st in enumerate(stems):
        d = dirs[k]
        rel = (d + "/" if d else "") + st + ".qml"
        doc = docs.gen_doc(rng, want_dynamic=not no_dyn)
        model[rel] = doc
        srcs.append(rel)
        steps.append({"op": "WRITE", "path": "proj/" + rel, "content": docs.render(doc)[0]})
    steps.append({"op": "WRITE", "path": "proj/README.txt", "content": "bystander\n"})

    def gen(plant=None, benign=None):
        spelled = [rng.choice([s, "./" + s]) for s in srcs]
        g = {"op": "GEN", "sources": spelled, "O": O, "no_dyn": no_dyn, "no_lower": no_lower,
             "hash_seed": rng.randint(1, 1 << 30), "dirent_seed": rng.randint(1, 1 << 30), "env_pad": rng.randint(0, 300)}
        if plant:
            g["plant"] = plant
        if benign:
            g["benign"] = benign
        if not plant:
            g["markers"] = {s: docs.markers(model[s]) for s in srcs if docs.markers(model[s])}
            g["palette_defaults"] = {s: docs.palette_defaults(model[s]) for s in srcs if docs.palette_defaults(model[s])}
        return g

    pre = rng.chance(0.65)
    if pre:
        steps.append(gen())
        if rng.chance(0.3):
            # leave only one of the two outputs of some source in place
            g = {"sources": [rng.choice(srcs)], "O": O, "no_dyn": no_dyn, "no_lower": no_lower}
            outs = sorted(engine.predicted_outputs(g, "/B", "/B/proj"))
            steps.append({"op": "DELETE", "path": posixpath.relpath(rng.choice(outs), "/B")})
    rounds = rng.randint(1, 3)
    for _ in range(rounds):
        vi = rng.below(len(srcs))
        victim = srcs[vi]
        good = model[victim]
        if rng.chance(0.4):
            good, _ = docs.edit(rng, good)  # the faulty version also differs elsewhere from the generated one
        kinds = docs.plant_kinds(good)
        kind, where, text = rng.choice(kinds)
        bad = copy.deepcopy(good)
        bad["plant"] = {"where": where, "text": text, "kind": kind}
        btext, spans = docs.render(bad)
        pool = _ERR_SNIPPETS["reject" if no_dyn else "generate"]
        if pool and rng.chance(0.12):
            # a whole document that the repo's own tests expect to be rejected in this mode (no span is known for it)
            sn = rng.choice(pool)
            kind, text, btext, spans = "test-snippet:" + sn["file"], sn["body"][:80].replace("\n", " "), sn["body"], {("plant",): None}
        steps.append({"op": "WRITE", "path": "proj/" + victim, "content": btext, "edit": "plant:" + kind})
        benign = None
        if rng.chance(0.3):
            benign = [[rng.randint(0, 1 << 20), rng.choice(["EINTR", "SHORT_READ"]), rng.randint(1, 64)] for _ in range(rng.randint(1, 2))]
        # argument order: the faulty source first, in the middle or last
        order = list(range(len(srcs)))
        rng.shuffle(order)
        g = gen(plant={"source": victim, "kind": kind, "span": list(spans[("plant",)]) if spans[("plant",)] else None, "text": text}, benign=benign)
        g["sources"] = [rng.choice([srcs[i], "./" + srcs[i]]) for i in order]
        steps.append(g)
        if rng.chance(0.3):
            steps.append(copy.deepcopy(g))  # a second faulty run must behave the same
        model[victim] = good
        steps.append({"op": "WRITE", "path": "proj/" + victim, "content": docs.render(good)[0], "edit": "unplant"})
        steps.append(gen())
        if rng.chance(0.35):
            # an accepted edit whose outputs meet a failing or short write: the run may fail (exit status non-zero), but when
            # it says 0 every binding of the document is in the outputs
            model[victim], _op = docs.edit(rng, model[victim])
            steps.append({"op": "WRITE", "path": "proj/" + victim, "content": docs.render(model[victim])[0], "edit": _op})
            g = gen()
            g["wfault"] = [rng.randint(0, 1 << 20), rng.choice(["ENOSPC", "EIO", "EDQUOT", "EFBIG", "SHORT_WRITE", "SHORT_THEN_ENOSPC"]), rng.randint(1, 4096)]
            steps.append(g)
            steps.append(gen())
    last = gen()
    steps.append(last)
    r = copy.deepcopy(last)
    r["rerun"] = True
    steps.append(r)
    return {"kind": "c04", "steps": steps}


BLOCK_RE = re.compile(r"^(error|warning)(\[[^\]]*\])?: (.*)$")
LOC_RE = re.compile(r"^\s*┌─ (.*):(\d+):(\d+)\s*$")


def parse_diagnostics(stderr):
    """-> [{"sev","msg","file","line","col","len"}] from codespan output"""
    out = []
    cur = None
    lines = stderr.splitlines()
    for i, ln in enumerate(lines):
        m = BLOCK_RE.match(ln)
        if m:
            cur = {"sev": m.group(1), "msg": m.group(3), "file": None, "line": None, "col": None, "len": None, "text": [ln]}
            out.append(cur)
            continue
        if cur is None:
            continue
        if not ln.startswith(" "):
            cur = None  # a block is its header plus the indented lines that follow
            continue
        cur["text"].append(ln)
        m = LOC_RE.match(ln)
        if m and cur["file"] is None:
            cur["file"], cur["line"], cur["col"] = m.group(1), int(m.group(2)), int(m.group(3))
            continue
        if cur["file"] is not None and cur["len"] is None and "│" in ln:
            tail = ln.split("│", 1)[1]
            mm = re.search(r"\^+", tail)
            if mm and set(tail.strip().split(" ")[0]) <= set("^"):
                cur["len"] = len(mm.group(0))
                cur["ucol"] = mm.start()  # 0-based position after "│"; one leading space precedes column 1
    return out


def _bump(d, k, n=1):
    d[k] = d.get(k, 0) + n


def run_case(case, env):
    sb = engine.Sandbox(env)
    viol = []
    stats = {"runs": 0, "sim_steps": {"syscalls_intercepted": 0}, "faults_fired": {}, "probes": {}}
    probes = stats["probes"]
    fps = []
    trace = []
    golden_content = {}   # rel output -> content after the last successful generation of an *unplanted* source

    prev_plain, prev_exit = None, None
    for si, step in enumerate(case["steps"]):
        if step["op"] != "GEN":
            sb.apply(step)
            prev_plain = None
            continue
        pred = engine.predicted_outputs(step, sb.root, sb.cwd)
        relpred = {sb.rel(p): v for p, v in pred.items()}
        sb.age()
        before = sb.snap()
        faults = []
        if step.get("benign"):
            # positions are chosen among read/open calls of a fault-free twin run
            sb.park()
            try:
                sb.clone_in()
                g = sb.run(step)
                stats["runs"] += 1
                stats["sim_steps"]["syscalls_intercepted"] += len(g.calls)
                sb.drop_clone()
            finally:
                sb.unpark()
            used = set()
            for pick, kind, n in step["benign"]:
                cands = [c for c in g.calls if c.idx not in used and engine.in_scope(c, sb) and
                         ((kind == "EINTR" and c.name in ("read", "openat")) or (kind == "SHORT_READ" and c.name == "read" and (c.result or 0) > 1))]
                if cands:
                    c = cands[pick % len(cands)]
                    used.add(c.idx)
                    faults.append((c.idx, kind) if kind == "EINTR" else (c.idx, kind, n))
            faults.sort()
        wgold = None
        if step.get("wfault") and not step.get("plant"):
            sb.park()
            try:
                sb.clone_in()
                g = sb.run(step)
                stats["runs"] += 1
                wgold = (g.exit_status, sb.snap())
                sb.drop_clone()
            finally:
                sb.unpark()
            pick, kind, n = step["wfault"]
            cands = [c for c in g.calls if c.name == "write" and c.is_mutation() and engine.in_scope(c, sb) and (c.length or 0) > 1]
            if cands:
                c = cands[pick % len(cands)]
                if kind == "SHORT_WRITE":
                    faults = [(c.idx, "SHORT_WRITE", max(1, min(n, c.length - 1)))]
                elif kind == "SHORT_THEN_ENOSPC":
                    faults = [(c.idx, "SHORT_WRITE", max(1, min(n, c.length - 1))), (c.idx + 1, "ERR", "ENOSPC")]
                else:
                    faults = [(c.idx, "ERR", kind)]
            else:
                wgold = None
        res = sb.run(step, faults=faults)
        stats["runs"] += 1
        stats["sim_steps"]["syscalls_intercepted"] += len(res.calls)
        for c in res.calls:
            if c.fault:
                _bump(stats["faults_fired"], c.fault + ":" + c.name)
        after = sb.snap()
        plant = step.get("plant")
        if not plant and wgold is not None:
            # ---- accepted document, write fault on an output
            prev_plain = None
            fired = [c for c in res.calls if c.fault]
            _bump(probes, "accepted_runs_under_a_write_fault")
            vs = []
            if res.signal is not None or res.bound:
                vs.append(V("exit-status", "c04:abnormal-end", "write fault %s: process ended with %s" % (step["wfault"][1], res.disposition())))
            if res.exit_status == 0 and wgold[0] == 0 and fired:
                _bump(probes, "write_fault_survived_with_exit_0")
                for p in sorted(relpred):
                    if after.content(p) != wgold[1].content(p):
                        vs.append(V("accepted-takes-effect", "c04:exit0-bindings-missing",
                                    "exit 0 under %s on %s, but output %s is not what the accepted document translates to (its bindings are in neither output): want %s got %s"
                                    % (step["wfault"][1], fired[0].line.split(" -> ")[0][-80:], p, engine._d(wgold[1].content(p)), engine._d(after.content(p)))))
            elif res.exit_status not in (0, None):
                _bump(probes, "write_fault_reported_as_failure")
            for v in vs:
                v["step"] = si
            viol += vs
            trace.append({"step": si, "argv": engine.argv_for(step, env, "@BOX@")[3:], "write_fault": step["wfault"][1], "exit": res.disposition()})
            continue
        if not plant:
            vs = engine.eval_clean_run(sb, step, before, after, res, pred)
            if res.exit_status == 0 and any(p in before.files for p in relpred):
                # every binding of the accepted document is in the outputs as they are on disk NOW: an output kept from an
                # earlier version of the document holds some of them in neither place
                vs += engine.freshness(sb, step, relpred, after)
                stats["runs"] += 1
                _bump(probes, "freshness_twins_run")
            if res.exit_status == 0:
                # accepted: every constant attached value its layout consumes is in the .ui (there is no other place for it)
                for s, ms in sorted(step.get("markers", {}).items()):
                    one = dict(step, sources=[s])
                    uis = [p for p in engine.predicted_outputs(one, sb.root, sb.cwd) if p.endswith(".ui")]
                    text = (after.content(sb.rel(uis[0])) or b"").decode("utf-8", "replace") if uis else ""
                    for m in ms:
                        _bump(probes, "attached_layout_values_looked_up_in_the_ui")
                        if not re.search(r"(?<![0-9])%d(?![0-9])" % m, text):
                            vs.append(V("accepted-takes-effect", "c04:attached-value-in-neither-output",
                                        "accepted document %s: the constant attached value %d (a QLayout.* stretch / minimum binding) is in neither output: <layout> elements are\n%s"
                                        % (s, m, "\n".join(l.strip() for l in text.splitlines() if "<layout" in l)[:600])))
            if res.exit_status == 0:
                # every object has a name of its own in the .ui: the header addresses objects by name, so code generated for
                # the later of two namesakes would run on the earlier
                for p in sorted(relpred):
                    if p.endswith(".ui"):
                        names = re.findall(r"<(?:widget|layout|spacer|action)\b[^>]*\bname=\"([^\"]*)\"", (after.content(p) or b"").decode("utf-8", "replace"))
                        _bump(probes, "object_names_compared", len(names))
                        dup = sorted(set(n for n in names if names.count(n) > 1))
                        if dup:
                            vs.append(V("accepted-takes-effect", "c04:binding-addresses-a-namesake",
                                        "accepted, but %s names two objects %s: bindings and handlers written for the later one are generated against the earlier" % (p, dup)))
            if res.exit_status == 0:
                # a role bound on the palette itself takes effect in each of the three colour groups (none of the explicit
                # groups of these documents binds it)
                for s, pd in sorted(step.get("palette_defaults", {}).items()):
                    one = dict(step, sources=[s])
                    uis = [p for p in engine.predicted_outputs(one, sb.root, sb.cwd) if p.endswith(".ui")]
                    text = (after.content(sb.rel(uis[0])) or b"").decode("utf-8", "replace") if uis else ""
                    for role, (cr, cg, cb) in pd:
                        _bump(probes, "palette_default_roles_looked_up_in_the_ui")
                        n = len([1 for m in re.findall(r"<color\b[^>]*>(.*?)</color>", text, re.S)
                                 if dict(re.findall(r"<(red|green|blue)>\s*(\d+)\s*</", m)) == {"red": str(cr), "green": str(cg), "blue": str(cb)}])
                        if n < 3:
                            vs.append(V("accepted-takes-effect", "c04:palette-default-role-missing",
                                        "accepted document %s: palette.%s: #%02x%02x%02x (bound on the palette itself, by no explicit group) is in %d of the 3 colour groups of the .ui"
                                        % (s, role, cr, cg, cb, n)))
            if res.exit_status != 0:
                vs.append(V("recovery", "c04:clean-doc-rejected", "document without planted error exits %s:\n%s" % (res.disposition(), res.stderr[-600:])))
            else:
                for p in relpred:
                    if p in golden_content and golden_content[p] != after.content(p) and not step.get("changed_since_golden"):
                        pass
                    golden_content[p] = after.content(p)
            if step.get("rerun") and prev_plain is not None and all(prev_plain.get(k) == step.get(k) for k in ("sources", "O", "no_dyn", "no_lower")) and prev_exit == 0:
                ch = [p for p in engine.diff_paths(before, after) if not (engine.is_scratch(sb, p, relpred, before) and res.exit_status != 0)]
                if ch:
                    vs.append(V("untouched", "rerun:touched", "identical re-run changed %s" % ch))
            for v in vs:
                v["step"] = si
            viol += vs
            prev_plain, prev_exit = step, res.exit_status
            trace.append({"step": si, "argv": engine.argv_for(step, env, "@BOX@")[3:], "exit": res.disposition()})
            continue

        # ---- faulty GEN
        prev_plain = None
        vs = []
        victim_spell = [s for s in step["sources"] if posixpath.normpath(s) == posixpath.normpath(plant["source"])][0]
        vpos = step["sources"].index(victim_spell)
        one = dict(step)
        one["sources"] = [victim_spell]
        vpred = engine.predicted_outputs(one, sb.root, sb.cwd)
        vrel = sorted(sb.rel(p) for p in vpred)
        if res.exit_status in (0, None) and res.signal is None:
            vs.append(V("exit-status", "c04:exit-zero", "planted %s (%s) but exit status is %s" % (plant["kind"], plant["text"], res.disposition())))
        if res.signal is not None or res.bound:
            vs.append(V("exit-status", "c04:abnormal-end", "planted %s: process ended with %s" % (plant["kind"], res.disposition())))
        for p in vrel:
            if p in before.files and p not in after.files:
                vs.append(V("outputs-untouched", "c04:output-removed", "output %s of the faulty source was removed" % p))
            elif p not in before.files and p in after.files:
                vs.append(V("outputs-untouched", "c04:output-created", "output %s of the faulty source %s (%s) was created" % (p, plant["source"], plant["kind"])))
            elif p in before.files and (before.files[p][0] != after.files[p][0] or before.ident(p) != after.ident(p)):
                vs.append(V("outputs-untouched", "c04:output-modified", "output %s of the faulty source %s (%s) was modified (content changed: %s)"
                            % (p, plant["source"], plant["kind"], before.files[p][0] != after.files[p][0])))
        for c in res.calls:
            if c.is_mutation() and any(posixpath.normpath(t) in vpred for t in c.targets()):
                vs.append(V("outputs-untouched", "c04:mutation-call-on-output", "a system call mutates an output path of the faulty source:\n" + c.line))
                break
        # nothing but outputs of the *other* sources may change either
        vs += [v for v in engine.check_confinement(sb, step, res, pred)]
        for p in engine.diff_paths(before, after):
            if p not in relpred and not engine.is_scratch(sb, p, relpred, before):
                vs.append(V("outputs-untouched", "fileset:unexpected-change", "path %s changed during a failing run" % p))
        diags = parse_diagnostics(res.stderr)
        line, c0, c1 = plant["span"] if plant["span"] else (None, None, None)
        inside = []
        for d in diags:
            if d["sev"] != "error" or d["file"] is None:
                continue
            if posixpath.basename(d["file"]) != posixpath.basename(plant["source"]):
                continue
            if line is None:
                inside.append(d)        # whole-document snippet: any located error in that file
            elif d["line"] == line and c0 <= d["col"] < c1 and (d["len"] is None or d["col"] + d["len"] <= c1):
                inside.append(d)
        io_failed = bool(faults) and any(d["sev"] == "error" and d["file"] is None for d in diags)
        if io_failed and not inside:
            # an injected transfer fault surfaced as an I/O error before diagnosis; the property does not
            # promise success under faults, only that nothing is written and the exit status is non-zero
            _bump(probes, "benign_fault_surfaced_as_io_error")
            stats.setdefault("notes", []).append("io error under %s: %s" % ([c.line.split(" -> ")[0].split(" ", 1)[1].split("/")[-1] + " " + c.fault for c in res.calls if c.fault], [d["msg"] for d in diags if d["file"] is None][:1]))
        elif not inside:
            vs.append(V("diagnostic-range", "c04:no-diagnostic-in-binding",
                        "planted %r at line %s cols [%s,%s) of %s but no error diagnostic lies within it; got %s\n%s"
                        % (plant["text"], line, c0, c1, plant["source"],
                           [(d["sev"], d["file"], d["line"], d["col"], d["len"]) for d in diags], res.stderr[-500:])))
        for v in vs:
            v["step"] = si
        viol += vs
        had = sum(1 for p in vrel if p in before.files)
        _bump(probes, "faulty_runs")
        _bump(probes, "faulty_runs_with_%d_of_%d_outputs_preexisting" % (had, len(vrel)))
        _bump(probes, "faulty_source_position_%s_of_%d" % ("first" if vpos == 0 else ("last" if vpos == len(step["sources"]) - 1 else "middle"), len(step["sources"])))
        _bump(probes, "plant_kind_" + plant["kind"])
        if faults:
            _bump(probes, "faulty_runs_under_benign_faults")
        others_written = sum(1 for p in relpred if p not in vrel and before.content(p) != after.content(p))
        if others_written:
            _bump(probes, "faulty_runs_where_an_earlier_source_was_written")
        fps.append("%s|had=%d/%d|pos=%d/%d|O=%s|nd=%d|benign=%d" % (plant["kind"], had, len(vrel), vpos, len(step["sources"]),
                                                                  "-" if step["O"] is None else "set", bool(step.get("no_dyn")), bool(faults)))
        trace.append({"step": si, "argv": engine.argv_for(step, env, "@BOX@")[3:], "planted": plant["kind"], "text": plant["text"],
                      "exit": res.disposition(), "diagnostics": [(d["sev"], d["msg"], d["file"], d["line"], d["col"]) for d in diags][:3]})
    sample = {"history": trace[:6]} if trace else None
    return {"violations": viol, "stats": stats, "fingerprints": sorted(set(fps)), "sample": sample}


def shrink(case, violation):
    steps = case["steps"]
    vstep = violation.get("step")
    if vstep is not None and vstep + 1 < len(steps):
        c = copy.deepcopy(case)
        c["steps"] = c["steps"][:vstep + 1]
        yield c
    for i in range(len(steps) - 1, -1, -1):
        if vstep is not None and i >= vstep:
            continue
        if steps[i]["op"] == "WRITE" and steps[i]["path"].endswith(".qml"):
            later = [j for j in range(i + 1, len(steps)) if steps[j]["op"] == "WRITE" and steps[j]["path"] == steps[i]["path"] and (vstep is None or j < vstep)]
            if not later:
                continue
        c = copy.deepcopy(case)
        del c["steps"][i]
        yield c
    if vstep is not None and vstep < len(steps) and steps[vstep]["op"] == "GEN":
        g = steps[vstep]
        if g.get("benign"):
            c = copy.deepcopy(case)
            c["steps"][vstep]["benign"] = None
            yield c
        if g.get("plant") and len(g["sources"]) > 1:
            c = copy.deepcopy(case)
            keep = [s for s in g["sources"] if posixpath.normpath(s) == posixpath.normpath(g["plant"]["source"])]
            for s in c["steps"]:
                if s["op"] == "GEN":
                    s["sources"] = keep
            yield c
        for key, val in (("O", None), ("no_lower", False), ("env_pad", 0)):
            if g.get(key) != val:
                c = copy.deepcopy(case)
                for s in c["steps"]:
                    if s["op"] == "GEN":
                        s[key] = val
                yield c


def describe():
    return {
        "rule": ("case = seeded history over a 1-3 source project: optional successful generation (so outputs pre-exist, "
                 "sometimes only one of the two), then 1-3 rounds of {plant one of 20 kinds of unknown / ill-typed / "
                 "unsupported binding or handler at a seeded object, regenerate with the faulty source first/middle/last "
                 "(optionally under EINTR / short reads), un-plant, regenerate}, final regeneration and identical re-run. "
                 "distinct_nontrivial counts distinct tuples (plant kind, how many outputs pre-existed, argument position, "
                 "-O set, --no-dynamic-binding, benign faults) over faulty runs. Accepted edits are also translated under ENOSPC/EIO/EDQUOT/EFBIG and short writes of the outputs (exit 0 only with the fault-free content) and against a clone that never held outputs; constant QLayout.* values unique in the document must be found in the .ui (sampled instance of the input clause)."),
        "fingerprint": "plant kind | pre-existing outputs | argv position | -O | no-dyn | benign",
        "components": {
            "real": ["qmluic generate-ui release binary built from /repo working tree", "contrib/metatypes/*.json", "kernel file system (tmpfs)"],
            "stub": ["system-call boundary (simkernel): getrandom bytes, getdents64 order, EINTR / short reads", "argv, cwd, environment"],
        },
        "assumptions": [
            "only the I/O clause of C04 is decided (exit status, outputs untouched, diagnostic inside the binding); the 'exactly one of .ui/header' clause is a pure function of the input and is not claimed",
            "the span of the planted binding is known because the orchestrator renders the document",
            "codespan's 'file:line:col' header and caret row are parsed to recover the diagnostic range",
        ],
    }

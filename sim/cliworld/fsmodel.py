"""Reference view of a sandbox directory: contents, inode, mtime, mode per path."""
import os
import shutil
import stat

from .kernel import TMP_RE


class Snap:
    """files: rel -> (content bytes, ino, mtime_ns, mode);  dirs: sorted list of rel dirs"""

    def __init__(self, files, dirs):
        self.files = files
        self.dirs = dirs

    def content(self, rel):
        f = self.files.get(rel)
        return None if f is None else f[0]

    def ident(self, rel):
        f = self.files.get(rel)
        return None if f is None else (f[1], f[2])

    def paths(self):
        return sorted(self.files)


def snapshot(root):
    files = {}
    dirs = []
    for dp, dn, fn in os.walk(root):
        dn.sort()
        rel_d = os.path.relpath(dp, root)
        if rel_d != ".":
            dirs.append(rel_d)
        for name in sorted(fn):
            p = os.path.join(dp, name)
            rel = os.path.normpath(os.path.join(rel_d, name))
            st = os.lstat(p)
            if stat.S_ISREG(st.st_mode):
                with open(p, "rb") as f:
                    data = f.read()
            elif stat.S_ISLNK(st.st_mode):
                data = b"->" + os.readlink(p).encode()
            else:
                data = b"<special>"
            files[rel] = (data, st.st_ino, st.st_mtime_ns, st.st_mode)
    return Snap(files, sorted(dirs))


def is_temp(rel):
    return bool(TMP_RE.match(os.path.basename(rel)))


def age_files(root, base_ns):
    """Give every file a distinct, old mtime so that any rewrite is visible as an mtime change
    even when it happens within one clock tick of the previous step."""
    k = 0
    for dp, dn, fn in os.walk(root):
        dn.sort()
        for name in sorted(fn):
            p = os.path.join(dp, name)
            if os.path.islink(p):
                continue
            t = base_ns + k * 1_000_000_000
            os.utime(p, ns=(t, t))
            k += 1


def clone(src, dst):
    """copy preserving symlinks, hard links among the copied files, modes and mtimes"""
    import subprocess
    if os.path.exists(dst):
        shutil.rmtree(dst)
    r = subprocess.run(["cp", "-a", src, dst], capture_output=True, text=True)
    if r.returncode != 0:
        raise RuntimeError("cp -a failed: " + r.stderr)


def write_files(root, files):
    for rel, content in files.items():
        p = os.path.join(root, rel)
        os.makedirs(os.path.dirname(p), exist_ok=True)
        with open(p, "w", encoding="utf-8", newline="") as f:
            f.write(content)

"""C18 — QML components in directories resolve as custom widgets, in any order.

Generated projects of 2-5 directories with component files whose root types are Qt classes or
other components (chains across directories), string imports in several spellings, import
cycles between directories, mutually inheriting and self-inheriting components, noise entries.
Each project is run under many schedules: every permutation of the source arguments,
directory-entry orders, hash seeds, working directories and path spellings.
"""
import copy
import itertools
import os
import posixpath
import xml.etree.ElementTree as ET

from . import engine, c08
from .engine import V

ID = "C18"
LEVEL = "exploration"
ENGINE = "cliworld/simkernel"

DIRNAMES = ["app", "common", "widgets", "lib/inner", "Other", "ui/parts"]
QT_BASES = {  # Qt class -> (property, value text, expected .ui value kind)
    "QWidget": ("toolTip", '"tip"'), "QDialog": ("sizeGripEnabled", "true"), "QPushButton": ("flat", "true"),
    "QLabel": ("wordWrap", "true"), "QGroupBox": ("title", '"grp"'), "QFrame": ("lineWidth", "3"),
    "QDialogButtonBox": ("centerButtons", "true"), "QLineEdit": ("readOnly", "true"), "QCheckBox": ("tristate", "true"),
}
CONTAINER_BASES = ("QWidget", "QDialog", "QGroupBox", "QFrame")


def tier_params(tier):
    if tier == "thorough":
        return {"cases": 12000, "max_schedules": 40, "wall_budget_s": 3300}
    return {"cases": 400, "max_schedules": 16, "wall_budget_s": 600}


def relpath_spelling(rng, frm, to):
    """spell directory `to` as seen from directory `frm` (both project-relative)"""
    r = posixpath.relpath(to, frm)
    if r.startswith(".."):
        return r
    return rng.choice([r, "./" + r])


def gen_case(rng, params, index):
    ndirs = rng.randint(2, 5)
    dirs = rng.sample(DIRNAMES, ndirs)
    comps = {}   # name -> {"dir","super","imports":[dir...]}
    order = []
    # directory import graph: random edges, plus (often) a cycle
    dimports = {d: [] for d in dirs}
    for d in dirs:
        for e in dirs:
            if e != d and rng.chance(0.35):
                dimports[d].append(e)
    if rng.chance(0.6) and ndirs >= 2:
        a, b = rng.sample(dirs, 2)
        if b not in dimports[a]:
            dimports[a].append(b)
        if a not in dimports[b]:
            dimports[b].append(a)
    ncomp = rng.randint(2, 9)
    for i in range(ncomp):
        d = rng.choice(dirs)
        name = rng.choice(["Btn", "Panel", "Box", "Form", "Lbl", "Edit", "Frame", "Part"]) + str(i)
        visible = [c for c in order if comps[c]["dir"] == d or comps[c]["dir"] in dimports[d]]
        if visible and rng.chance(0.5) and depth(comps, rng.choice(visible)) < 4:
            sup = rng.choice([c for c in visible if depth(comps, c) < 4])
        else:
            sup = rng.choice(sorted(QT_BASES))
        comps[name] = {"dir": d, "super": sup, "imports": list(dimports[d])}
        order.append(name)
    # cyclic components (never used by positive documents)
    cyc = []
    if rng.chance(0.5):
        d1, d2 = rng.choice(dirs), rng.choice(dirs)
        if d1 != d2:
            for dd, other in ((d1, d2), (d2, d1)):
                if other not in dimports[dd]:
                    dimports[dd].append(other)
        comps["CycA"] = {"dir": d1, "super": "CycB", "imports": list(dimports[d1]), "cyclic": True}
        comps["CycB"] = {"dir": d2, "super": "CycA", "imports": list(dimports[d2]), "cyclic": True}
        cyc += ["CycA", "CycB"]
    if rng.chance(0.4):
        d1 = rng.choice(dirs)
        comps["Selfie"] = {"dir": d1, "super": "Selfie", "imports": list(dimports[d1]), "cyclic": True}
        cyc.append("Selfie")
    # components whose chain of root types leads *into* a cycle without being on it (a rho shape)
    tails = []
    if cyc and rng.chance(0.7):
        for k in range(rng.randint(1, 2)):
            target = rng.choice(cyc + tails)
            d = comps[target]["dir"] if rng.chance(0.6) else rng.choice(dirs)
            if comps[target]["dir"] != d and comps[target]["dir"] not in dimports[d]:
                dimports[d].append(comps[target]["dir"])
            name = "Tail%d" % k
            comps[name] = {"dir": d, "super": target, "imports": list(dimports[d]), "cyclic": True}
            tails.append(name)
    # refresh import lists (cycle creation may have added edges)
    for n, c in comps.items():
        c["imports"] = list(dimports[c["dir"]])

    # two directories that each have a sub-directory of the same name, imported by the same string: the string means a
    # different directory depending on who says it, and both hold a component of the same name with different bases
    twins = None
    if ndirs >= 2 and rng.chance(0.4):
        dA, dB = rng.sample(dirs, 2)
        subname = rng.choice(["common", "parts", "lib"])
        bA, bB = rng.sample(sorted(QT_BASES), 2)
        twins = {"bases": {dA: bA, dB: bB}, "sub": subname, "spell": rng.choice([subname, "./" + subname])}
    files = {}
    if twins:
        for dX, bX in sorted(twins["bases"].items()):
            files["proj/%s/%s/Base0.qml" % (dX, twins["sub"])] = "import qmluic.QtWidgets\n%s {\n}\n" % bX
            files["proj/%s/%s/Only%s.qml" % (dX, twins["sub"], bX)] = "import qmluic.QtWidgets\n%s {\n}\n" % bX
    for n, c in sorted(comps.items()):
        L = ["import qmluic.QtWidgets"]
        imps = list(c["imports"])
        rng.shuffle(imps)
        if twins and c["dir"] in twins["bases"]:
            L.append('import "%s"' % twins["spell"])
        for e in imps:
            L.append('import "%s"' % relpath_spelling(rng, c["dir"], e))
        base = qt_base(comps, n)
        body = []
        if base in QT_BASES and rng.chance(0.5):
            p, v = QT_BASES[base]
            body.append("    %s: %s" % (p, v))
        if base in CONTAINER_BASES and rng.chance(0.4):
            body.append("    QVBoxLayout { QLabel { text: %s } }" % ('"in %s"' % n))
        L.append("%s {" % c["super"])
        L += body
        L.append("}")
        files["proj/%s/%s.qml" % (c["dir"], n)] = "\n".join(L) + "\n"
    # the same component name in two directories: which one wins where both are visible is not stated by the property,
    # but it must not depend on the schedule; where exactly one is visible it is that one
    dups = []
    if ndirs >= 2 and rng.chance(0.35):
        d1, d2 = rng.sample(dirs, 2)
        b1, b2 = rng.sample(sorted(QT_BASES), 2)
        dups = [{"dir": d1, "super": b1}, {"dir": d2, "super": b2}]
        for x in dups:
            files["proj/%s/Dup.qml" % x["dir"]] = "import qmluic.QtWidgets\n%s {\n}\n" % x["super"]
    # a component whose root type is the duplicated name, in a directory that sees both, with imports repeated and the
    # own directory imported explicitly (import order is precedence, so a repeated import is not a no-op).  Which Dup
    # it derives from is not stated; but its instances must accept the properties of the class that the component's
    # OWN translation reports as the class of its root object.
    fancy = None
    DISTINCT = {"QPushButton": ("flat", "true"), "QLabel": ("wordWrap", "true"), "QGroupBox": ("title", '"g"'), "QLineEdit": ("readOnly", "true"),
                "QCheckBox": ("tristate", "true"), "QDialogButtonBox": ("centerButtons", "true")}
    if dups and dups[0]["super"] in DISTINCT and dups[1]["super"] in DISTINCT and rng.chance(0.8):
        df, other = dups[0]["dir"], dups[1]["dir"]
        if rng.chance(0.5):
            df, other = other, df
        if other not in dimports[df]:
            dimports[df].append(other)
        imps = [relpath_spelling(rng, df, e) for e in dimports[df]]
        own = rng.choice([".", "./", "../" + posixpath.basename(df)]) if "/" not in df else "."
        seq = list(imps)
        if rng.chance(0.7):
            seq.insert(rng.randint(0, len(seq)), own)
        if rng.chance(0.6):
            seq.insert(rng.randint(0, len(seq)), rng.choice(imps))      # the same directory once more
        if rng.chance(0.4):
            seq.append(own)
        L = ["import qmluic.QtWidgets"] + ['import "%s"' % x for x in seq] + ["Dup {", "}"]
        files["proj/%s/Fancy.qml" % df] = "\n".join(L) + "\n"
        users = {}
        for x in dups:
            p, v = DISTINCT[x["super"]]
            name = "UseFancy%s" % x["super"]
            LL = ["import qmluic.QtWidgets"] + ['import "%s"' % relpath_spelling(rng, df, e) for e in dimports[df]]
            LL += ["QWidget {", "    QVBoxLayout { Fancy { id: fancy0; %s: %s } }" % (p, v), "}"]
            files["proj/%s/%s.qml" % (df, name)] = "\n".join(LL) + "\n"
            users[x["super"]] = "%s/%s.qml" % (df, name)
        fancy = {"source": "%s/Fancy.qml" % df, "users": users}
    # noise
    for d in dirs:
        if rng.chance(0.4):
            files["proj/%s/notes.txt" % d] = "not qml\n"
        if rng.chance(0.2):
            files["proj/%s/Backup.qml.bak" % d] = "garbage {{{\n"
        if rng.chance(0.2):
            files["proj/%s/Dir.qml/keep.txt" % d] = "a directory whose name ends in .qml\n"
        if rng.chance(0.15):
            files["proj/%s/deep/er/Unused.qml" % d] = "import qmluic.QtWidgets\nQWidget {}\n"
    # positive sources
    nsrc = rng.randint(1, 4)
    sources = []
    expect = {}
    usable = [n for n in order]
    for k in range(nsrc):
        d = rng.choice(dirs)
        name = "Main%d" % k
        vis = [c for c in usable if comps[c]["dir"] == d or comps[c]["dir"] in dimports[d]]
        L = ["import qmluic.QtWidgets"]
        imps = list(dimports[d])
        rng.shuffle(imps)
        in_twin = bool(twins) and d in twins["bases"]
        if in_twin and rng.chance(0.5):
            L.append('import "%s"' % twins["spell"])
            in_twin = "first"
        for e in imps:
            L.append('import "%s"' % relpath_spelling(rng, d, e))
        if in_twin is True:
            L.append('import "%s"' % twins["spell"])
        used = []
        props = []
        rootcands = [c for c in vis if qt_base(comps, c) in ("QWidget", "QDialog", "QGroupBox", "QFrame")]
        if rootcands and rng.chance(0.25):
            root = rng.choice(rootcands)
            used.append(root)
        else:
            root = rng.choice(["QDialog", "QWidget"])
        L.append("%s {" % root)
        L.append("    QVBoxLayout {")
        nchild = rng.randint(0, 5) if vis else 0
        cid = 0
        for _ in range(nchild):
            c = rng.choice(vis)
            used.append(c)
            base = qt_base(comps, c)
            oid = "c%d" % cid
            cid += 1
            line = "%s { id: %s" % (c, oid)
            if base in QT_BASES and rng.chance(0.6):
                p, v = QT_BASES[base]
                line += "; %s: %s" % (p, v)
                props.append([c, oid, p])
            line += " }"
            if rng.chance(0.3):
                L.append("        QGroupBox { QHBoxLayout { %s } }" % line)   # first use in a nested position
            else:
                L.append("        " + line)
        seen = [x for x in dups if x["dir"] == d or x["dir"] in dimports[d]]
        extra, ambiguous = [], []
        if in_twin and rng.chance(0.8):
            bX = twins["bases"][d]
            p_, v_ = QT_BASES[bX]
            L.append("        Base0 { id: tb0; %s: %s }" % (p_, v_))
            extra.append(["Base0", bX])
            props.append(["Base0", "tb0", p_])
            if rng.chance(0.5):
                L.append("        Only%s { id: tb1 }" % bX)
                extra.append(["Only%s" % bX, bX])
        if seen and rng.chance(0.7):
            L.append("        Dup { id: dup0 }")
            if len(seen) == 1:
                extra.append(["Dup", seen[0]["super"]])
            else:
                ambiguous.append("Dup")
        L.append("        QLabel { text: %s }" % ('"%s"' % name))
        L.append("    }")
        L.append("}")
        rel = "%s/%s.qml" % (d, name)
        files["proj/" + rel] = "\n".join(L) + "\n"
        sources.append(rel)
        expect[rel] = {"custom": sorted(set(used)), "props": props, "extra": extra, "ambiguous": ambiguous}
    # negative documents: use a cyclic component; checked one per invocation
    negatives = []
    for n in tails + cyc[:2]:
        d = comps[n]["dir"]
        rel = "%s/Neg%s.qml" % (d, n)
        L = ["import qmluic.QtWidgets"] + ['import "%s"' % relpath_spelling(rng, d, e) for e in dimports[d]]
        if n.startswith("Tail") and rng.chance(0.3):
            L += ["%s {" % n, "}"]            # the source's own root type is steps away from the cycle
        else:
            L += ["QWidget {", "    QVBoxLayout { %s { } }" % n, "}"]
        files["proj/" + rel] = "\n".join(L) + "\n"
        negatives.append(rel)
    # a positive document living next to cyclic components exercises discovery over the cycle
    no_lower = rng.chance(0.25)
    # ---- schedules
    perms = list(itertools.permutations(range(len(sources))))
    if len(perms) > params["max_schedules"]:
        perms = rng.sample(perms, params["max_schedules"])
    scheds = []
    cwds = ["."] + [d for d in dirs if rng.chance(0.5)]
    n_s = max(params["max_schedules"], len(perms))
    for k in range(n_s):
        perm = perms[k % len(perms)]
        cwd = "." if k == 0 else rng.choice(cwds)
        scheds.append({"perm": list(perm), "cwd": cwd, "dot": [rng.chance(0.3) for _ in sources],
                       "hash_seed": 1 if k == 0 else rng.randint(2, 1 << 40), "dirent_seed": 1 if k == 0 else rng.randint(2, 1 << 40),
                       # EIO only: glibc's readdir() turns ENOENT from getdents64 into end-of-directory (POSIX wants a directory removed while
                       # it is read to look like EOF), so no program can report that one
                       "dirfault": [rng.randint(0, 1 << 20), "EIO"] if rng.chance(0.3) else None,
                       "neg": None if not negatives or not rng.chance(0.25) else rng.below(len(negatives)),
                       "subset": None if k < len(perms) or not rng.chance(0.3) else rng.sample(range(len(sources)), rng.randint(1, len(sources)))})
    for i in range(len(negatives)):
        scheds.append({"perm": [], "cwd": ".", "dot": [], "hash_seed": rng.randint(2, 1 << 40), "dirent_seed": rng.randint(2, 1 << 40), "neg": i, "subset": None})
    model = {n: {"dir": c["dir"], "super": c["super"], "cyclic": bool(c.get("cyclic"))} for n, c in comps.items()}
    # ---- history: after all schedules, the root class of a component that documents use is changed (the documents are
    # not touched) and everything is translated again over the outputs of the earlier runs.  Alternatives of the same
    # length keep the size of every output the same; the instance properties generated above stay valid for the
    # first two pairs (QLabel is a QFrame, QDialog is a QWidget).
    SAME_LEN = {"QFrame": ["QLabel"], "QLabel": ["QFrame"], "QWidget": ["QDialog"], "QDialog": ["QWidget"],
                "QGroupBox": ["QLineEdit", "QCheckBox"], "QLineEdit": ["QGroupBox", "QCheckBox"], "QCheckBox": ["QGroupBox", "QLineEdit"]}
    rebases = []
    used_any = sorted(set(c for e in expect.values() for c in e["custom"] if c in comps))
    cands = [n for n in sorted(comps) if not comps[n].get("cyclic") and comps[n]["super"] in SAME_LEN
             and any(n == u or _derives(comps, u, n) for u in used_any)]
    rng.shuffle(cands)
    for n in cands[:rng.randint(0, 2)]:
        new = rng.choice(SAME_LEN[comps[n]["super"]]) if rng.chance(0.8) else rng.choice(sorted(QT_BASES))
        path = "proj/%s/%s.qml" % (comps[n]["dir"], n)
        old_text = files[path]
        head = old_text.split("\n%s {" % comps[n]["super"])[0]
        rebases.append({"component": n, "path": path, "from": comps[n]["super"], "to": new, "content": head + "\n%s {\n}\n" % new})
    return {"kind": "c18", "rebases": rebases, "fancy": fancy, "dirs": dirs, "files": files, "sources": sources, "negatives": negatives, "expect": expect, "components": model,
            "no_lower": no_lower, "schedules": scheds}


def depth(comps, n):
    k = 0
    seen = set()
    while n in comps and n not in seen:
        seen.add(n)
        n = comps[n]["super"]
        k += 1
    return k


def _derives(comps, n, anc):
    seen = set()
    while n in comps and n not in seen:
        seen.add(n)
        n = comps[n]["super"]
        if n == anc:
            return True
    return False


def qt_base(comps, n):
    seen = set()
    while n in comps:
        if n in seen:
            return None
        seen.add(n)
        n = comps[n]["super"]
    return n


def header_name(name, no_lower):
    h = name + ".h"
    return h if no_lower else h.lower()


def spell_from(cwd, rel, dot):
    p = posixpath.relpath(rel, cwd)
    if dot and not p.startswith(".."):
        p = "./" + p
    return p


def _bump(d, k, n=1):
    d[k] = d.get(k, 0) + n


def run_case(case, env):
    sb = engine.Sandbox(env)
    viol = []
    stats = {"runs": 0, "sim_steps": {"syscalls_intercepted": 0}, "faults_fired": {}, "probes": {}}
    probes = stats["probes"]
    for rel, text in sorted(case["files"].items()):
        sb.apply({"op": "WRITE", "path": rel, "content": text})
    proj = sb.cwd
    for d in case.get("dirs", []):
        sb.apply({"op": "MKDIR", "path": "proj/" + d})
    base = {}  # source -> observation of the first schedule that processed it
    comps = case["components"]
    fps = []
    has_cycle = any(c["cyclic"] for c in comps.values())
    hangs = 0
    for k, sc in enumerate(case["schedules"]):
        idxs = sc["subset"] if sc.get("subset") else sc["perm"]
        if sc.get("subset"):
            idxs = [i for i in sc["perm"] if i in sc["subset"]]
        srcs = [case["sources"][i] for i in idxs]
        dots = {case["sources"][i]: (sc["dot"][i] if i < len(sc["dot"]) else False) for i in idxs}
        neg = case["negatives"][sc["neg"]] if sc.get("neg") is not None else None
        cwd_rel = sc["cwd"]
        argv_srcs = [spell_from(cwd_rel, s, dots[s]) for s in srcs] + ([spell_from(cwd_rel, neg, False)] if neg else [])
        if not argv_srcs:
            continue
        step = {"op": "GEN", "sources": argv_srcs, "O": None, "no_dyn": False, "no_lower": case["no_lower"],
                "hash_seed": sc["hash_seed"], "dirent_seed": sc["dirent_seed"], "env_pad": 0,
                "cpu_ms": 4000, "timeout_ms": 120000}   # a normal invocation uses ~30 ms of CPU; a loop that makes no system call is
                # stopped by the CPU-time bound of the tracee (RLIMIT_CPU) - not by wall-clock time, which depends on the load
        old_cwd = sb.cwd
        sb.cwd = posixpath.normpath(posixpath.join(proj, cwd_rel))
        try:
            res = sb.run(step)
        finally:
            sb.cwd = old_cwd
        stats["runs"] += 1
        stats["sim_steps"]["syscalls_intercepted"] += len(res.calls)
        desc = "schedule %d argv=%s cwd=%s hash_seed=%d dirent_seed=%d" % (k, argv_srcs, cwd_rel, sc["hash_seed"], sc["dirent_seed"])
        # ---- bounded progress / termination
        if res.bound:
            viol.append(V("termination", "c18:no-progress", "%s: no exit within the step bound (%s); last calls:\n%s"
                          % (desc, res.bound, "\n".join(c.line for c in res.calls[-5:])), schedule=k))
            hangs += 1
            if hangs >= 2:
                break       # every further schedule of this project would wait for the bound again
            continue
        if res.signal is not None:
            viol.append(V("termination", "c18:abnormal-end", "%s: process died with signal %d\n%s" % (desc, res.signal, res.stderr[-400:]), schedule=k))
            continue
        if res.exit_status not in (0, 1):
            viol.append(V("termination", "c18:abnormal-end", "%s: exit status %s\n%s" % (desc, res.exit_status, res.stderr[-600:]), schedule=k))
            continue
        if neg:
            _bump(probes, "invocations_with_a_document_using_a_cyclic_component")
            if res.exit_status == 0:
                # a document instantiating a mutually/self-inheriting component cannot be a widget tree
                _bump(probes, "cyclic_component_document_accepted")
        if has_cycle:
            _bump(probes, "invocations_on_projects_with_inheritance_cycles")
        # ---- per-source observation
        procs = [posixpath.normpath(posixpath.join(cwd_rel, l[len("processing "):].strip())) for l in res.stderr.splitlines() if l.startswith("processing ")]
        for s in srcs:
            one = {"sources": [s], "O": None, "no_dyn": False, "no_lower": case["no_lower"]}
            pred = engine.predicted_outputs(one, sb.root, proj)
            outs = {}
            for p in sorted(pred):
                try:
                    outs[sb.rel(p)] = open(p, "rb").read()
                except FileNotFoundError:
                    outs[sb.rel(p)] = None
            if s not in procs:
                viol.append(V("order-independence", "c18:source-not-processed", "%s: source %s was never processed although every source before it is valid\n%s"
                              % (desc, s, res.stderr[-600:]), schedule=k))
                continue
            last = len(procs) - 1 - procs[::-1].index(s)
            accepted = res.exit_status == 0 or last < len(procs) - 1
            label = posixpath.relpath(s, cwd_rel)
            mine, blocks = c08.attribute(res.stderr, label)
            # labels are printed cwd-relative: rewrite them to project-relative before comparing
            mine = sorted(m.replace("┌─ " + label + ":", "┌─ " + s + ":") for m in mine)
            obs = {"accepted": accepted, "outs": outs, "diags": mine}
            if s not in base:
                base[s] = (k, obs)
                # ---- model agreement on the first observation (later ones must equal it anyway)
                viol += [dict(v, schedule=k) for v in check_model(case, s, obs, desc)]
                continue
            bk, b = base[s]
            if obs["accepted"] != b["accepted"]:
                viol.append(V("order-independence", "c18:acceptance-differs", "%s: %s accepted=%s but accepted=%s in schedule %d\n%s"
                              % (desc, s, obs["accepted"], b["accepted"], bk, res.stderr[-500:]), schedule=k))
            for p in sorted(outs):
                if outs[p] != b["outs"][p]:
                    viol.append(V("order-independence", "c18:output-differs", "%s: output %s differs from schedule %d\n%s"
                                  % (desc, p, bk, c08._firstdiff(b["outs"][p], outs[p])), schedule=k))
            if obs["diags"] != b["diags"]:
                viol.append(V("order-independence", "c18:diagnostics-differ", "%s: diagnostics of %s differ from schedule %d:\n%s\n---\n%s"
                              % (desc, s, bk, "\n".join(obs["diags"])[:600], "\n".join(b["diags"])[:600]), schedule=k))
        # ---- a directory listing fails part-way (I/O error, directory removed while it is read): the run may fail, but
        # when it says 0 every document resolved its components as in the fault-free run
        if sc.get("dirfault") and res.exit_status == 0 and not neg:
            cands = [c for c in res.calls if c.name == "getdents64" and engine.in_scope(c, sb) and (c.result or 0) > 0]
            if cands:
                c = cands[sc["dirfault"][0] % len(cands)]
                sb.park()
                try:
                    sb.clone_in()
                    sb.cwd = posixpath.normpath(posixpath.join(proj, cwd_rel))
                    try:
                        fr = sb.run(step, faults=[(c.idx, "ERR", sc["dirfault"][1])])
                    finally:
                        sb.cwd = old_cwd
                    fouts = {}
                    for s in srcs:
                        for p in sorted(engine.predicted_outputs({"sources": [s], "O": None, "no_dyn": False, "no_lower": case["no_lower"]}, sb.root, proj)):
                            try:
                                fouts[sb.rel(p)] = open(p, "rb").read()
                            except FileNotFoundError:
                                fouts[sb.rel(p)] = None
                    sb.drop_clone()
                finally:
                    sb.unpark()
                stats["runs"] += 1
                fired = [x for x in fr.calls if x.fault]
                for x in fired:
                    _bump(stats["faults_fired"], "ERR:" + x.name)
                if fired and not (fired[0].name == "getdents64" and (fired[0].fdpath or "").startswith(sb.root)):
                    # the call numbers come from the run before the outputs existed; with more directory entries the number can
                    # land on another call (a stat, an open).  What qmluic does with an error there is not this oracle's business
                    _bump(probes, "listing_fault_landed_on_another_call_ignored")
                    fired = []
                if fr.bound or fr.signal is not None:
                    viol.append(V("termination", "c18:abnormal-end", "%s: under %s at a directory listing the process ended with %s" % (desc, sc["dirfault"][1], fr.disposition()), schedule=k))
                elif fr.exit_status == 0 and fired:
                    _bump(probes, "failed_directory_listing_survived_with_exit_0")
                    for s in srcs:
                        if s in base:
                            for p, want in sorted(base[s][1]["outs"].items()):
                                if fouts.get(p) != want:
                                    viol.append(V("order-independence", "c18:listing-error-changes-resolution",
                                                  "%s: %s on the listing of %s was not reported (exit 0), and output %s differs from the fault-free result\n%s"
                                                  % (desc, sc["dirfault"][1], fired[0].fdpath, p, c08._firstdiff(want, fouts.get(p))), schedule=k))
                elif fired:
                    _bump(probes, "failed_directory_listing_reported_as_failure")
        if len(srcs) > 1:
            _bump(probes, "multi_source_invocations")
        if cwd_rel != ".":
            _bump(probes, "invocations_from_a_subdirectory")
    # ---- instances accept the properties of the class the component's own translation reports
    fancy = case.get("fancy")
    if fancy:
        fl = "--no-lowercase-file-name" if case["no_lower"] else None
        step = {"op": "GEN", "sources": [fancy["source"]], "O": None, "no_dyn": False, "no_lower": case["no_lower"], "hash_seed": 7, "dirent_seed": 7, "env_pad": 0, "cpu_ms": 4000, "timeout_ms": 120000}
        r1 = sb.run(step)
        stats["runs"] += 1
        base_cls = None
        pred = engine.predicted_outputs(step, sb.root, proj)
        for p in pred:
            if p.endswith(".ui") and os.path.exists(p):
                try:
                    root = ET.fromstring(open(p, "rb").read().decode("utf-8"))
                    for cw in root.findall("./customwidgets/customwidget"):
                        if cw.findtext("class") == "Dup":
                            base_cls = cw.findtext("extends")
                except ET.ParseError:
                    pass
        if r1.exit_status == 0 and base_cls in fancy["users"]:
            _bump(probes, "components_with_ambiguous_root_type_checked")
            user = fancy["users"][base_cls]
            for order in ([user], [fancy["source"], user], [user, fancy["source"]]):
                st = dict(step, sources=order, hash_seed=11 + len(order), dirent_seed=13)
                r2 = sb.run(st)
                stats["runs"] += 1
                if r2.bound or r2.signal is not None:
                    viol.append(V("termination", "c18:no-progress", "invocation %s did not end properly: %s" % (order, r2.disposition())))
                elif r2.exit_status != 0:
                    viol.append(V("model-agreement", "c18:instance-rejects-own-base-property",
                                  "the component's own translation (%s) says its root object is a Dup extending %s, but an instance of the component does not "
                                  "accept a property of %s (argv %s):\n%s\n--- %s\n%s" % (fancy["source"], base_cls, base_cls, order, r2.stderr[-700:], fancy["source"],
                                                                                       case["files"]["proj/" + fancy["source"]])))
                    break
        elif r1.exit_status == 0:
            _bump(probes, "ambiguous_root_type_base_not_recognised")
    # ---- a component's root class changes between runs: the next run over the old outputs must produce what a run
    # over a tree without any earlier output produces (the custom-widget entry follows the component file as it is NOW)
    for rb in case.get("rebases", []):
        if hangs:
            break
        sb.apply({"op": "WRITE", "path": rb["path"], "content": rb["content"]})
        _bump(probes, "component_root_class_changed_between_runs")
        what = "after changing the root class of component %s from %s to %s (documents untouched)" % (rb["component"], rb["from"], rb["to"])
        # all documents in one invocation first; where one of them is no longer valid, the others one by one
        groups = [list(case["sources"])]
        for gi, group in enumerate(groups):
            step = {"op": "GEN", "sources": group, "O": None, "no_dyn": False, "no_lower": case["no_lower"],
                    "hash_seed": 17 + gi, "dirent_seed": 19 + gi, "env_pad": 0, "cpu_ms": 4000, "timeout_ms": 120000}
            before = sb.snap()
            r3 = sb.run(step)
            stats["runs"] += 1
            if r3.bound or r3.signal is not None:
                viol.append(V("termination", "c18:no-progress", "%s: %s" % (what, r3.disposition())))
                hangs += 1
                break
            if r3.exit_status == 0:
                relpred = set(sb.rel(p) for p in engine.predicted_outputs(step, sb.root, proj))
                after = sb.snap()
                vs = engine.freshness(sb, step, relpred, after)
                stats["runs"] += 1
                _bump(probes, "regeneration_after_component_change_compared_with_fresh_tree")
                if any(after.content(p) != before.content(p) for p in relpred):
                    _bump(probes, "component_change_altered_an_output")
                for v in vs:
                    v["key"] = "c18:" + v["key"]
                    v["detail"] = "%s: %s" % (what, v["detail"])
                viol += vs
            else:
                _bump(probes, "component_change_made_a_document_invalid")
                if gi == 0 and len(group) > 1:
                    groups += [[s] for s in group]
    ncustom = sum(len(e["custom"]) for e in case["expect"].values())
    chain = max([depth(comps, n) for n in comps if not comps[n]["cyclic"]] or [0])
    fps.append("dirs=%d|comps=%d|srcs=%d|custom=%d|chain=%d|cyc=%d|files=%s" % (
        len(set(c["dir"] for c in comps.values())), len(comps), len(case["sources"]), ncustom, chain, has_cycle,
        ",".join(sorted(case["files"]))[:400]))
    if chain >= 3:
        _bump(probes, "projects_with_inheritance_chain_of_3_or_more")
    _bump(probes, "custom_widget_entries_checked", ncustom)
    sample = {"files": sorted(case["files"]), "sources": case["sources"], "negatives": case["negatives"],
              "components": {n: c["super"] for n, c in sorted(comps.items())}, "schedules": len(case["schedules"]),
              "expected_customwidgets": {s: e["custom"] for s, e in case["expect"].items()}}
    return {"violations": viol, "stats": stats, "fingerprints": fps, "sample": sample}


def check_model(case, s, obs, desc):
    out = []
    exp = case["expect"][s]
    comps = case["components"]
    if not obs["accepted"]:
        out.append(V("model-agreement", "c18:valid-document-rejected",
                     "%s: %s uses only resolvable, acyclic components %s but was rejected:\n%s" % (desc, s, exp["custom"], "\n".join(obs["diags"])[:800])))
        return out
    ui = [v for p, v in obs["outs"].items() if p.endswith(".ui")]
    if not ui or ui[0] is None:
        out.append(V("model-agreement", "c18:no-ui", "%s: %s accepted but no .ui" % (desc, s)))
        return out
    try:
        root = ET.fromstring(ui[0].decode("utf-8"))
    except ET.ParseError as e:
        out.append(V("model-agreement", "c18:ui-not-xml", "%s: %s: %s" % (desc, s, e)))
        return out
    got = []
    for cw in root.findall("./customwidgets/customwidget"):
        got.append((cw.findtext("class"), cw.findtext("extends"), cw.findtext("header")))
    want = sorted([(n, comps[n]["super"], header_name(n, case["no_lower"])) for n in exp["custom"]] +
                  [(n, sup, header_name(n, case["no_lower"])) for n, sup in exp.get("extra", [])])
    amb = set(exp.get("ambiguous", []))
    if amb:
        _seen = [g for g in got if g[0] in amb]
        if len(_seen) != len(amb):
            out.append(V("model-agreement", "c18:customwidgets-differ", "%s: %s instantiates %s but <customwidgets> lists %s" % (desc, s, sorted(amb), sorted(got))))
        got = [g for g in got if g[0] not in amb]
    if len(got) != len(set(g[0] for g in got)):
        out.append(V("model-agreement", "c18:custom-widget-listed-twice", "%s: %s lists a class more than once: %s" % (desc, s, got)))
    if sorted(set(got)) != want:
        out.append(V("model-agreement", "c18:customwidgets-differ", "%s: %s <customwidgets> = %s, expected (as a set) %s" % (desc, s, sorted(got), want)))
    for cname, oid, prop in exp["props"]:
        found = False
        for w in root.iter("widget"):
            if w.get("class") == cname and w.get("name") == oid:
                if any(p.get("name") == prop for p in w.findall("property")):
                    found = True
        if not found:
            out.append(V("model-agreement", "c18:base-property-missing", "%s: %s: instance %s of %s should carry base-class property %s in the .ui" % (desc, s, oid, cname, prop)))
    return out


def shrink(case, violation):
    k = violation.get("schedule")
    if k is None and case.get("rebases"):
        if len(case["schedules"]) > 1:
            c = copy.deepcopy(case)
            c["schedules"] = case["schedules"][:1]
            yield c
        if len(case["rebases"]) > 1:
            for i in range(len(case["rebases"])):
                c = copy.deepcopy(case)
                del c["rebases"][i]
                yield c
        if len(case["sources"]) > 1 and len(case["schedules"]) == 1:
            for i in range(len(case["sources"])):
                c = copy.deepcopy(case)
                s = c["sources"].pop(i)
                c["expect"].pop(s, None)
                c["schedules"][0]["perm"] = list(range(len(c["sources"])))
                c["schedules"][0]["dot"] = [False] * len(c["sources"])
                c["schedules"][0]["subset"] = None
                yield c
    elif case.get("rebases"):
        c = copy.deepcopy(case)
        c["rebases"] = []
        yield c
    if k is not None and len(case["schedules"]) > 2:
        c = copy.deepcopy(case)
        keep = [0, k] if k != 0 else [0]
        c["schedules"] = [case["schedules"][i] for i in keep]
        yield c
    if len(case["schedules"]) <= 2:
        for i, s in enumerate(case["schedules"]):
            for key, val in (("cwd", "."), ("neg", None), ("subset", None), ("dirent_seed", 1), ("hash_seed", 1)):
                if s.get(key) != val:
                    c = copy.deepcopy(case)
                    c["schedules"][i][key] = val
                    yield c
    # drop noise files
    for f in sorted(case["files"]):
        if not f.endswith(".qml") or "/deep/er/" in f:
            c = copy.deepcopy(case)
            del c["files"][f]
            yield c


def describe():
    return {
        "rule": ("case = generated project (2-5 directories, 2-12 component files with Qt or component root types forming chains "
                 "up to depth 4 across directories, string imports spelled x / ./x / ../x, import cycles between directories, "
                 "mutually and self-inheriting components, noise entries incl. a directory named *.qml) x schedules (all "
                 "permutations of the 1-4 source arguments or a seeded sample, subsets, getdents64 order, hash seed, working "
                 "directory = project root or a sub-directory, ./-prefixed spellings, documents using a cyclic component "
                 "appended last or run alone). Oracles: per-source outputs/acceptance/diagnostic multiset equal across "
                 "schedules; <customwidgets> equals the model as a set with no class twice; base-class properties present; "
                 "every invocation ends within the step bound with exit 0 or 1. distinct_nontrivial counts distinct projects. History phase at the end of every project: the root class of a used component is rewritten (same-length names preferred), all documents are translated again over the old outputs (together, then one by one) and compared with a clone that never held outputs. 30% of the schedules are re-run in a clone with an EIO on one directory listing (exit 0 only with the fault-free outputs)."),
        "fingerprint": "directories | components | sources | custom-widget uses | longest chain | cycle | file list",
        "components": {
            "real": ["qmluic generate-ui release binary built from /repo working tree (qmldir discovery, type map, uigen)", "contrib/metatypes/*.json", "kernel file system (tmpfs)"],
            "stub": ["system-call boundary (simkernel): getdents64 order, getrandom bytes, step bound", "argv order, cwd, path spelling"],
        },
        "assumptions": [
            "component names are unique across directories (which of two same-named components wins is not stated by the property)",
            "that a type which is not imported is rejected is not demanded",
            "a process killed by a signal (e.g. stack exhaustion through unbounded recursion) counts as failure to terminate properly",
        ],
    }

"""Python side of the simulated kernel boundary: write a plan, run the real qmluic binary
under simkernel, parse the call log."""
import os
import re
import subprocess

MUTATORS = ("rename", "renameat", "renameat2", "mkdir", "mkdirat", "unlink", "unlinkat", "rmdir",
            "chmod", "fchmod", "fchmodat", "link", "linkat", "symlink", "symlinkat", "truncate",
            "ftruncate", "write", "pwrite64", "writev", "creat")
DIGEST = {"h": None}   # when enabled (selfcheck determinism), every event log of the current case is folded in


def digest_update(text, slot=None):
    if DIGEST["h"] is None:
        return
    if slot:
        text = text.replace(slot, "@SLOT@")
    # canonicalize() also probes every prefix of the slot path
    text = re.sub(r"/vf-[0-9a-f]{8}(/w[0-9]{3})?", "/@RUN@", text)
    DIGEST["h"].update(text.encode("utf-8", "replace"))
    DIGEST["h"].update(b"\x00")


TMP_RE = re.compile(r"^\.tmp[A-Za-z0-9]{6}$")
TMP_IN_TEXT_RE = re.compile(r"\.tmp[A-Za-z0-9]{6}\b")


def unescape(p):
    return re.sub(r"%([0-9A-F]{2})", lambda m: chr(int(m.group(1), 16)), p)


class Call:
    __slots__ = ("idx", "name", "args", "result", "fault", "paths", "fdpath", "flags", "length", "line")

    def __init__(self):
        self.idx = -1
        self.name = ""
        self.args = []
        self.result = None
        self.fault = None
        self.paths = []
        self.fdpath = None
        self.flags = ""
        self.length = None
        self.line = ""

    def is_mutation(self):
        """Does this call (try to) change the file system?  stdio writes are not mutations."""
        if self.name in ("open", "openat", "openat2", "creat"):
            return any(x in self.flags for x in ("wr", "rw", "creat", "trunc", "append", "tmpfile")) or self.name == "creat"
        if self.name in ("write", "pwrite64", "writev", "fchmod", "ftruncate"):
            return self.fdpath is not None and not self.fdpath.startswith("<")
        return self.name in MUTATORS

    def targets(self):
        """Paths this call would change."""
        if self.name in ("write", "pwrite64", "writev", "fchmod", "ftruncate", "fsync", "fdatasync"):
            return [self.fdpath] if self.fdpath and not self.fdpath.startswith("<") else []
        return list(self.paths)


class SimResult:
    def __init__(self):
        self.rc = None            # simkernel's own status: 0 exited, 3 killed by plan, 4 bound, 2 error
        self.exit_status = None   # tracee exit status
        self.signal = None
        self.bound = None
        self.calls = []
        self.stdout = ""
        self.stderr = ""
        self.log = ""
        self.unfired = 0

    def disposition(self):
        if self.bound:
            return "bound:" + self.bound
        if self.signal is not None:
            return "signal:%d" % self.signal
        return "exit:%s" % self.exit_status


def parse_log(text):
    res = SimResult()
    res.log = text
    for line in text.splitlines():
        if line.startswith("exit "):
            kv = line[5:]
            if kv.startswith("status="):
                res.exit_status = int(kv[7:])
            elif kv.startswith("signal="):
                res.signal = int(kv[7:])
            elif kv.startswith("bound="):
                res.bound = kv[6:]
            continue
        if line.startswith("unfired-faults"):
            res.unfired = int(line.split()[1])
            continue
        if line == "supervisor-error":
            res.rc = 2
            continue
        c = Call()
        c.line = line
        if " -> " in line:
            head, tail = line.rsplit(" -> ", 1)
            t = tail.split()
            for x in t:
                if x.startswith("!"):
                    c.fault = x[1:]
                else:
                    try:
                        c.result = int(x)
                    except ValueError:
                        pass
        else:
            head = line
        parts = head.split(" ")
        c.idx = int(parts[0])
        c.name = parts[1]
        c.args = parts[2:]
        for a in c.args:
            if a.startswith("/"):
                c.paths.append(unescape(a))
            elif a.startswith("fd") and "=" in a:
                c.fdpath = unescape(a.split("=", 1)[1])
            elif a.startswith("len="):
                c.length = int(a[4:])
            elif re.match(r"^(rd|wr|rw)(\+|$)", a):
                c.flags = a
        res.calls.append(c)
    return res


def write_plan(path, hash_seed=1, dirent_seed=1, env_pad=0, faults=()):
    with open(path, "w") as f:
        f.write("hash_seed %d\ndirent_seed %d\nenv_pad %d\n" % (hash_seed, dirent_seed, env_pad))
        for ft in faults:
            f.write("fault " + " ".join(str(x) for x in ft) + "\n")


def run(env, cwd, argv, hash_seed=1, dirent_seed=1, env_pad=0, faults=(), max_calls=20000,
        timeout_ms=60000, io_dir=None, cpu_ms=None):
    """Run `qmluic argv...` in `cwd` under the simulated kernel."""
    io_dir = io_dir or os.path.join(env.slot(), "io")
    os.makedirs(io_dir, exist_ok=True)
    plan = os.path.join(io_dir, "plan")
    logp = os.path.join(io_dir, "log")
    outp = os.path.join(io_dir, "stdout")
    errp = os.path.join(io_dir, "stderr")
    write_plan(plan, hash_seed, dirent_seed, env_pad, faults)
    cmd = [env.simkernel, "--plan", plan, "--log", logp, "--stdout", outp, "--stderr", errp, "--cwd", cwd,
           "--max-calls", str(max_calls), "--timeout-ms", str(timeout_ms)] + (["--cpu-ms", str(cpu_ms)] if cpu_ms else []) + ["--", env.qmluic] + list(argv)
    p = subprocess.run(cmd, capture_output=True, text=True)
    try:
        text = open(logp, encoding="utf-8", errors="replace").read()
    except FileNotFoundError:
        text = ""
    res = parse_log(text)
    res.rc = p.returncode
    if p.returncode == 2:
        raise RuntimeError("simkernel error: %s\n%s" % (p.stderr, text[-2000:]))
    res.stdout = open(outp, encoding="utf-8", errors="replace").read() if os.path.exists(outp) else ""
    res.stderr = open(errp, encoding="utf-8", errors="replace").read() if os.path.exists(errp) else ""
    digest_update(text + "\n--stderr--\n" + normalise_text(res.stderr), env.slot())
    return res


def normalise_text(s):
    """Temp-file names are the only clock-derived bytes that can reach stderr."""
    return TMP_IN_TEXT_RE.sub(".tmp#", s)

"""Wide documents for C08: objects with many bindings of every kind, so that every
sorted-before-emit loop in qmluic has several entries and a missing sort is visible at the
second hash seed.  Property names are taken from the metatypes of the working tree."""
import json
import os

from . import docs

_CLASSES = {}

SIMPLE = {"bool", "int", "QString", "double", "qreal"}
WIDGETS = ["QLabel", "QLineEdit", "QSpinBox", "QCheckBox", "QPushButton", "QComboBox", "QPlainTextEdit", "QSlider",
           "QProgressBar", "QGroupBox", "QToolButton", "QDoubleSpinBox", "QRadioButton", "QTextEdit", "QDial"]
SKIP = {"objectName", "windowFilePath", "styleSheet", "windowModified", "visible", "modal", "html", "markdown", "plainText",
        "currentText", "currentIndex", "default", "flat_", "checked", "down", "autoExclusive", "text", "value", "sliderPosition", "tristate"}


def load(metatypes_dir):
    if _CLASSES:
        return _CLASSES
    for fn in sorted(os.listdir(metatypes_dir)):
        if not fn.endswith(".json"):
            continue
        for u in json.load(open(os.path.join(metatypes_dir, fn), encoding="utf-8")):
            for c in u.get("classes", []):
                _CLASSES[c["className"]] = c
    return _CLASSES


def all_props(cls):
    out = []
    seen = set()
    c = _CLASSES.get(cls)
    while c:
        for p in c.get("properties", []):
            if p["name"] not in seen:
                seen.add(p["name"])
                out.append(p)
        sup = c.get("superClasses") or []
        c = _CLASSES.get(sup[0]["name"]) if sup else None
    return out


def const_value(rng, ty):
    if ty == "bool":
        return rng.choice(["true", "false"])
    if ty == "int":
        return str(rng.randint(0, 40))
    if ty in ("double", "qreal"):
        return rng.choice(["0.5", "1.25", "2.0", "10.0"])
    return docs._q(docs._s(rng))


def gen_wide(rng, n_errors=0):
    """-> QML text of a document whose objects each carry 6-14 bindings"""
    nobj = rng.randint(3, 6)
    classes = [rng.choice(WIDGETS) for _ in range(nobj)]
    # guaranteed dynamic sources
    classes[0] = "QCheckBox"
    classes[1] = "QSpinBox"
    classes[2] = "QLineEdit"
    ids = ["w%d" % i for i in range(nobj)]
    root = rng.choice(["QDialog", "QWidget"])
    layout = rng.choice(["QVBoxLayout", "QGridLayout", "QFormLayout", "QTabWidget"])
    L = ["import qmluic.QtWidgets", "", "%s {" % root, "    id: rootObj", "    windowTitle: %s" % docs._q(docs._s(rng))]
    if rng.chance(0.6):
        roles = rng.sample(["window", "windowText", "base", "text", "button", "buttonText", "highlight", "toolTipBase", "brightText", "link"], rng.randint(3, 7))
        for r in roles:
            L.append("    palette.%s: %s" % (r, rng.choice(['"red"', '"#102030"', '"black"', '"white"', '"gray"'])))
        if rng.chance(0.5):
            g = rng.choice(["active", "inactive", "disabled"])
            L.append("    palette.%s { %s }" % (g, "; ".join("%s: %s" % (r, rng.choice(['"blue"', '"#fff"'])) for r in rng.sample(roles, min(3, len(roles))))))
    L.append("    %s {" % layout)
    if layout == "QGridLayout":
        L.append("        columns: %d" % rng.randint(2, 3))
    grid_vals = [rng.randint(0, 3), rng.randint(0, 3), rng.randint(0, 30)]
    bools = ["w0.checked"]
    ints = ["w1.value"]
    strs = ["w2.text"]
    errors_left = n_errors
    for i, (cls, oid) in enumerate(zip(classes, ids)):
        L.append("        %s {" % cls)
        L.append("            id: %s" % oid)
        props = [p for p in all_props(cls) if p.get("write") and p["type"] in SIMPLE and p["name"] not in SKIP]
        rng.shuffle(props)
        used = set()
        lines = []
        for p in props[:rng.randint(4, 9)]:
            used.add(p["name"])
            lines.append("%s: %s" % (p["name"], const_value(rng, p["type"])))
        # gadget groups
        if rng.chance(0.7):
            mem = rng.sample([("family", '"Sans"'), ("pointSize", "11"), ("bold", "true"), ("italic", "true"), ("underline", "false"), ("strikeout", "true"), ("weight", "75"), ("kerning", "false")], rng.randint(2, 5))
            if rng.chance(0.5):
                lines.append("font { %s }" % "; ".join("%s: %s" % m for m in mem))
            else:
                lines += ["font.%s: %s" % m for m in mem]
        if rng.chance(0.5):
            lines.append("sizePolicy.horizontalPolicy: QSizePolicy.%s" % rng.choice(["Expanding", "Fixed", "Minimum"]))
            lines.append("sizePolicy.verticalPolicy: QSizePolicy.%s" % rng.choice(["Expanding", "Fixed", "Preferred"]))
            if rng.chance(0.5):
                lines.append("sizePolicy.horizontalStretch: %d" % rng.randint(0, 3))
        if rng.chance(0.4):
            lines.append("minimumSize { width: %d; height: %d }" % (rng.randint(1, 50), rng.randint(1, 50)))
        if rng.chance(0.3):
            lines.append("geometry { x: %d; y: %d; width: %d; height: %d }" % (rng.randint(0, 9), rng.randint(0, 9), rng.randint(10, 99), rng.randint(10, 99)))
        # attached
        if layout == "QTabWidget":
            lines.append("QTabWidget.title: %s" % docs._q(docs._s(rng)))
            if rng.chance(0.6):
                lines.append("QTabWidget.toolTip: %s" % docs._q(docs._s(rng)))
            if rng.chance(0.4):
                lines.append("QTabWidget.whatsThis: %s" % docs._q(docs._s(rng)))
        elif layout == "QGridLayout":
            if rng.chance(0.5):
                lines.append("QLayout.alignment: Qt.AlignRight")
            if rng.chance(0.4):
                lines.append("QLayout.columnSpan: %d" % rng.randint(1, 2))
            if rng.chance(0.4):
                lines.append("QLayout.rowStretch: %d" % grid_vals[0])
            if rng.chance(0.4):
                lines.append("QLayout.columnStretch: %d" % grid_vals[1])
            if rng.chance(0.3):
                lines.append("QLayout.columnMinimumWidth: %d" % grid_vals[2])
        elif layout == "QVBoxLayout":
            if rng.chance(0.5):
                lines.append("QLayout.alignment: Qt.AlignLeft | Qt.AlignTop")
        # dynamic bindings (>= 3 on most objects)
        dyn_targets = [("enabled", "bool"), ("toolTip", "string"), ("statusTip", "string"), ("whatsThis", "string"),
                       ("updatesEnabled", "bool"), ("accessibleName", "string"), ("minimumWidth", "int"), ("maximumHeight", "int"),
                       ("acceptDrops", "bool"), ("windowOpacity", None)]
        rng.shuffle(dyn_targets)
        nd = 0
        for name, ty in dyn_targets:
            if name in used or ty is None or nd >= rng.randint(3, 5):
                continue
            srcb = [b for b in bools if not b.startswith(oid + ".")]
            srci = [b for b in ints if not b.startswith(oid + ".")]
            srcs = [b for b in strs if not b.startswith(oid + ".")]
            e = None
            if ty == "bool" and (srcb or srci):
                e = rng.choice(srcb + ["%s > %d" % (x, rng.randint(0, 9)) for x in srci])
            elif ty == "int" and srci:
                e = "%s + %d" % (rng.choice(srci), rng.randint(1, 9))
            elif ty == "string" and (srcs or srcb):
                e = rng.choice(["%s + %s" % (x, docs._q(docs._s(rng))) for x in srcs] + ["%s ? %s : %s" % (x, docs._q(docs._s(rng)), docs._q(docs._s(rng))) for x in srcb])
            if e:
                used.add(name)
                lines.append("%s: %s" % (name, e))
                nd += 1
        if rng.chance(0.5):
            lines.append("font.pointSize: w1.value + %d" % rng.randint(1, 5)) if not any(x.startswith("font") for x in lines) else None
        # handlers
        hs = {"QCheckBox": ["onClicked", "onToggled", "onPressed", "onReleased"], "QPushButton": ["onClicked", "onPressed", "onReleased", "onToggled"],
              "QRadioButton": ["onClicked", "onPressed", "onReleased"], "QToolButton": ["onClicked", "onPressed", "onReleased", "onTriggered"],
              "QLineEdit": ["onReturnPressed", "onEditingFinished", "onTextEdited", "onSelectionChanged"],
              "QSpinBox": ["onEditingFinished"], "QDoubleSpinBox": ["onEditingFinished"], "QSlider": ["onSliderPressed", "onSliderReleased", "onValueChanged", "onSliderMoved"],
              "QDial": ["onSliderPressed", "onSliderReleased", "onValueChanged"], "QComboBox": ["onCurrentTextChanged", "onEditTextChanged"],
              "QPlainTextEdit": ["onTextChanged", "onSelectionChanged", "onCursorPositionChanged", "onUndoAvailable"],
              "QTextEdit": ["onTextChanged", "onSelectionChanged", "onCursorPositionChanged"], "QGroupBox": ["onClicked", "onToggled"],
              "QProgressBar": ["onValueChanged"], "QLabel": ["onLinkActivated", "onLinkHovered"]}.get(cls, [])
        rng.shuffle(hs)
        for h in hs[:rng.randint(2, 4)]:
            lines.append("%s: { console.log(%s); w2.text = %s }" % (h, docs._q(docs._s(rng)), docs._q(docs._s(rng))))
        lines = [x for x in lines if x]
        # planted errors (multi-error variants): unknown properties / type mismatches spread over objects
        while errors_left > 0 and rng.chance(0.6):
            errors_left -= 1
            lines.append(rng.choice(["bogus%d: 1" % errors_left, "noSuch%d: \"x\"" % errors_left, "onNoSignal%d: console.log(1)" % errors_left,
                                     "Bogus%d.attached: 2" % errors_left, "font.bogus%d: 1" % errors_left]))
        rng.shuffle(lines)
        for x in lines:
            L.append("            " + x)
        L.append("        }")
        if cls == "QCheckBox" and oid != "w0":
            bools.append(oid + ".checked")
        if cls == "QSpinBox" and oid != "w1":
            ints.append(oid + ".value")
        if cls == "QLineEdit" and oid != "w2":
            strs.append(oid + ".text")
    L.append("    }")
    while errors_left > 0:
        errors_left -= 1
        L.append("    rootBogus%d: true" % errors_left)
    L.append("}")
    return "\n".join(L) + "\n"


ICON_STATES = ["normalOff", "normalOn", "disabledOff", "disabledOn", "activeOff", "activeOn", "selectedOff", "selectedOn"]


def gen_mainwindow(rng, n_errors=0):
    """a QMainWindow with menu bar, menus (explicit and implicit action lists, separators, nested menus, menuAction()),
    tool bar, status bar, actions with icons (theme names and per-state pixmaps), shortcuts, checkable actions with
    handlers, a central widget with splitter / stacked widget / tab widget, buddies, item models and list items"""
    nact = rng.randint(3, 8)
    acts = ["act%d" % i for i in range(nact)]
    L = ["import qmluic.QtWidgets", "", "QMainWindow {", "    id: root", "    geometry { x: 0; y: 0; width: %d; height: %d }" % (rng.randint(300, 900), rng.randint(200, 700)),
         "    windowTitle: %s" % rng.choice(['qsTr("Main %1").arg(pick.currentText)', docs._q(docs._s(rng)), 'pick.currentIndex === 0 ? qsTr("none") : pick.currentText'])]
    if rng.chance(0.5):
        L.append("    actions: []")
    L += ["    QWidget {", "        id: central", "        QVBoxLayout {", "            QFormLayout {",
          "                QLabel { text: qsTr(\"&Pick\"); buddy: pick }", "                QComboBox {", "                    id: pick",
          "                    model: [%s]" % ", ".join(docs._q(docs._s(rng)) for _ in range(rng.randint(2, 6))),
          "                    onTextHighlighted: function(s: QString) { statusbar.showMessage(s, %d); }" % rng.randint(100, 2000),
          "                }"]
    if rng.chance(0.6):
        L += ["                QLabel { text: qsTr(\"&Name\"); buddy: nameEdit }", "                QLineEdit { id: nameEdit; placeholderText: qsTr(%s) }" % docs._q(docs._s(rng))]
    L.append("            }")
    cont = rng.choice(["QSplitter", "QStackedWidget", "QTabWidget"])
    L.append("            %s {" % cont)
    if cont == "QStackedWidget":
        L.append("                currentIndex: pick.currentIndex")
    if cont == "QSplitter":
        L += ["                sizePolicy.horizontalPolicy: QSizePolicy.Expanding", "                sizePolicy.verticalPolicy: QSizePolicy.Expanding"]
    for k in range(rng.randint(2, 4)):
        kind = rng.choice(["QPlainTextEdit", "QListWidget", "QToolButton", "QWidget", "QTreeWidget"])
        L.append("                %s {" % kind)
        L.append("                    id: page%d" % k)
        if cont == "QTabWidget":
            L.append("                    QTabWidget.title: %s" % docs._q(docs._s(rng)))
            if rng.chance(0.5):
                L.append("                    QTabWidget.toolTip: %s" % docs._q(docs._s(rng)))
        if kind == "QPlainTextEdit":
            L += ["                    font.family: \"Monospace\"", "                    readOnly: %s" % rng.choice(["true", "pick.currentIndex > %d" % rng.randint(0, 3)]),
                  "                    lineWrapMode: QPlainTextEdit.NoWrap"]
        if kind == "QToolButton":
            states = rng.sample(ICON_STATES, rng.randint(2, 6))
            for st in states:
                L.append("                    icon.%s: \"%s-%d.png\"" % (st, st.lower(), k))
            L.append("                    onClicked: %s.trigger()" % rng.choice(acts))
        L.append("                }")
    L += ["            }", "        }", "    }", "    QMenuBar {", "        id: menubar"]
    for m in range(rng.randint(1, 3)):
        L.append("        QMenu {")
        L.append("            title: qsTr(%s)" % docs._q("&M%d %s" % (m, docs._s(rng))))
        if rng.chance(0.5):
            chosen = rng.sample(acts, rng.randint(1, min(4, nact)))
            if rng.chance(0.5):
                chosen.insert(rng.randint(0, len(chosen)), "sep0")
            L.append("            actions: [%s]" % ", ".join(chosen))
        else:
            L.append("            QAction { id: inl%d; text: qsTr(%s); icon.normalOff: \"i%d.png\" }" % (m, docs._q(docs._s(rng)), m))
            if rng.chance(0.5):
                L.append("            QAction { separator: true }")
            if rng.chance(0.5):
                L += ["            QMenu {", "                id: sub%d" % m, "                title: qsTr(%s)" % docs._q(docs._s(rng)),
                      "                QAction { text: qsTr(%s) }" % docs._q(docs._s(rng)), "            }"]
        L.append("        }")
    L.append("    }")
    if rng.chance(0.7):
        tb = rng.sample(acts, rng.randint(1, min(5, nact)))
        tb.insert(rng.randint(0, len(tb)), "sep0")
        L += ["    QToolBar {", "        actions: [%s]" % ", ".join(tb), "    }"]
    L.append("    QStatusBar { id: statusbar }")
    for i, a in enumerate(acts):
        L.append("    QAction {")
        L.append("        id: %s" % a)
        props = ["text: qsTr(%s)" % docs._q("&" + docs._s(rng))]
        if rng.chance(0.5):
            props.append("icon.name: %s" % docs._q(rng.choice(["document-open", "edit-undo", "edit-redo", "help-about"])))
        elif rng.chance(0.4):
            for st in rng.sample(ICON_STATES, rng.randint(2, 4)):
                props.append("icon.%s: \"%s-%s.png\"" % (st, a, st.lower()))
        if rng.chance(0.4):
            props.append("shortcut: %s" % rng.choice(['"Ctrl+%s"' % chr(65 + i), "QKeySequence.Open", '"Ctrl+X, Ctrl+%s"' % chr(65 + i)]))
        if rng.chance(0.3):
            props.append("checkable: true")
        if rng.chance(0.3):
            props.append("enabled: %s" % rng.choice(["false", "pick.currentIndex > 0"]))
        if rng.chance(0.3):
            props.append("toolTip: %s" % docs._q(docs._s(rng)))
        if rng.chance(0.4):
            props.append("onTriggered: %s" % rng.choice(["root.close()", "console.log(%s)" % docs._q(docs._s(rng)), "statusbar.showMessage(qsTr(\"triggered\"), 500)"]))
        if rng.chance(0.2):
            props.append("onToggled: function(on: bool) { statusbar.showMessage(on ? \"on\" : \"off\", 100) }")
        while n_errors > 0 and rng.chance(0.4):
            n_errors -= 1
            props.append(rng.choice(["bogus%d: 1" % n_errors, "onNoSignal%d: console.log(1)" % n_errors, "icon.bogus%d: \"x\"" % n_errors]))
        rng.shuffle(props)
        for p in props:
            L.append("        " + p)
        L.append("    }")
    L += ["    QAction {", "        id: sep0", "        separator: true", "    }"]
    while n_errors > 0:
        n_errors -= 1
        L.append("    rootBogus%d: true" % n_errors)
    L.append("}")
    return "\n".join(L) + "\n"

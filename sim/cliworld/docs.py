"""Small editable QML documents over real Qt classes, typed edit operators and planted errors.

A document is a plain dict (JSON-serialisable); `render` turns it into text and reports the
line/column span of every binding, so that an oracle can check that a diagnostic points
into the binding that was planted.
"""
import copy

WORDS = ["alpha", "beta", "gamma", "delta", "Eps", "zeta", "Eta", "theta", "iota", "kappa", "lambda", "mu"]
STEMS = ["Main", "Dlg", "SettingsPane", "FooBar", "X", "MyForm2", "Tool_Box", "ABC"]

# id -> class for the widgets a document may contain
WIDGET_CLASSES = [("chk", "QCheckBox"), ("edit", "QLineEdit"), ("spin", "QSpinBox"), ("btn", "QPushButton"),
                  ("label", "QLabel"), ("combo", "QComboBox"), ("chk2", "QCheckBox"), ("spin2", "QSpinBox"),
                  ("label2", "QLabel"), ("edit2", "QLineEdit")]


def _s(rng):
    w = rng.choice(WORDS)
    if rng.chance(0.3):
        w += " " + rng.choice(WORDS)
    if rng.chance(0.15):
        w += rng.choice(["&", "<b>", "'", "%1", "é", "…"])
    return w


def _q(s):
    return '"' + s.replace("\\", "\\\\").replace('"', '\\"') + '"'


def const_bindings(rng, cls):
    """candidate constant bindings for a class: list of (name, expr)"""
    out = [("enabled", rng.choice(["true", "false"])), ("toolTip", _q(_s(rng)))]
    if cls in ("QCheckBox", "QPushButton"):
        out += [("text", _q(_s(rng))), ("checkable", "true"), ("autoRepeat", rng.choice(["true", "false"]))]
    if cls == "QLabel":
        out += [("text", _q(_s(rng))), ("wordWrap", rng.choice(["true", "false"])), ("indent", str(rng.randint(0, 9))),
                ("alignment", rng.choice(["Qt.AlignLeft", "Qt.AlignRight | Qt.AlignVCenter", "Qt.AlignCenter"])),
                ("font.bold", "true"), ("font.pointSize", str(rng.randint(6, 20)))]
    if cls == "QLineEdit":
        out += [("text", _q(_s(rng))), ("readOnly", rng.choice(["true", "false"])), ("maxLength", str(rng.randint(1, 99))),
                ("placeholderText", "qsTr(%s)" % _q(_s(rng)))]
    if cls == "QSpinBox":
        out += [("minimum", str(rng.randint(-9, 0))), ("maximum", str(rng.randint(10, 99))), ("singleStep", str(rng.randint(1, 5))),
                ("suffix", _q(_s(rng)))]
    if cls == "QComboBox":
        out += [("editable", rng.choice(["true", "false"])), ("maxVisibleItems", str(rng.randint(2, 12))),
                ("model", "[%s]" % ", ".join(_q(_s(rng)) for _ in range(rng.randint(1, 3))))]
    return out


def dyn_sources(ids):
    """expressions reading observable properties of the widgets present: (type, text)"""
    out = []
    for i, cls in ids:
        if cls == "QCheckBox":
            out.append(("bool", "%s.checked" % i))
        if cls == "QLineEdit":
            out.append(("string", "%s.text" % i))
        if cls == "QSpinBox":
            out.append(("int", "%s.value" % i))
        if cls == "QComboBox":
            out.append(("int", "%s.currentIndex" % i))
    return out


def dyn_expr(rng, ids, want):
    srcs = dyn_sources(ids)
    bools = [t for ty, t in srcs if ty == "bool"]
    ints = [t for ty, t in srcs if ty == "int"]
    strs = [t for ty, t in srcs if ty == "string"]
    cands = []
    if want == "bool":
        cands += bools + ["!" + b for b in bools]
        cands += ["%s > %d" % (i, rng.randint(0, 5)) for i in ints]
        cands += ["!%s.isEmpty()" % s for s in strs]
        if len(bools) >= 2:
            cands.append("%s && %s" % (bools[0], bools[1]))
    elif want == "int":
        cands += ["%s + %d" % (i, rng.randint(1, 9)) for i in ints]
        cands += ["%s ? %d : %d" % (b, rng.randint(0, 4), rng.randint(5, 9)) for b in bools]
    elif want == "string":
        cands += ["%s ? %s : %s" % (b, _q(_s(rng)), _q(_s(rng))) for b in bools]
        cands += ["%s + %s" % (s, _q(_s(rng))) for s in strs]
        cands += ["qsTr(%s).arg(%s)" % (_q("v=%1"), i) for i in ints]
    return rng.choice(cands) if cands else None


DYN_TARGETS = {  # class -> [(property, type)]
    "QLabel": [("text", "string"), ("enabled", "bool"), ("visible", "bool"), ("indent", "int")],
    "QLineEdit": [("enabled", "bool"), ("readOnly", "bool"), ("placeholderText", "string")],
    "QSpinBox": [("enabled", "bool"), ("minimum", "int"), ("singleStep", "int")],
    "QPushButton": [("enabled", "bool"), ("text", "string"), ("visible", "bool")],
    "QCheckBox": [("enabled", "bool"), ("text", "string")],
    "QComboBox": [("enabled", "bool"), ("maxVisibleItems", "int")],
}


def handler_for(rng, cls, ids):
    """(name, body) of a signal handler valid for cls, acting on other widgets"""
    acts = []
    for i, c in ids:
        if c == "QLineEdit":
            acts.append("%s.text = %s" % (i, _q(_s(rng))))
            acts.append("%s.clear()" % i)
        if c == "QSpinBox":
            acts.append("%s.value = %d" % (i, rng.randint(0, 9)))
        if c == "QCheckBox":
            acts.append("%s.checked = %s" % (i, rng.choice(["true", "false"])))
        if c == "QLabel":
            acts.append("%s.text = %s" % (i, _q(_s(rng))))
    if not acts:
        acts = ["console.log(%s)" % _q(_s(rng))]
    a = rng.choice(acts)
    b = rng.choice(acts)
    if cls in ("QPushButton", "QCheckBox"):
        return rng.choice([
            ("onClicked", "function(): void { %s }" % a),          # "return type is ignored" warning
            ("onReleased", "function(): void { %s; %s }" % (a, b)),
            ("onClicked", a),
            ("onClicked", "{ %s; %s }" % (a, b)),
            ("onToggled", "function(on: bool) { if (on) { %s } else { %s } }" % (a, b)),
            ("onPressed", "console.log(%s)" % _q(_s(rng))),
        ])
    if cls == "QSpinBox":
        return rng.choice([("onEditingFinished", a), ("onEditingFinished", "{ if (%s.enabled) { %s } else { %s } }" % (ids[0][0], a, b))])
    if cls == "QLineEdit":
        return rng.choice([("onEditingFinished", "function(): void { %s }" % a), ("onReturnPressed", a), ("onTextEdited", "function(t: QString) { console.log(t) }")])
    if cls == "QComboBox":
        return rng.choice([("onCurrentTextChanged", "function(t: QString) { %s }" % a), ("onEditTextChanged", "console.log(%s)" % _q(_s(rng)))])
    return None


def gen_doc(rng, min_widgets=2, max_widgets=5, want_dynamic=True):
    pool = list(WIDGET_CLASSES)
    rng.shuffle(pool)
    n = rng.randint(min_widgets, max_widgets)
    ids = pool[:n]
    # make sure there is at least one dynamic source
    if want_dynamic and not dyn_sources(ids):
        ids[0] = ("chk", "QCheckBox")
    doc = {
        "root": rng.choice(["QDialog", "QWidget"]),
        "title": _s(rng),
        "layout": rng.choice(["QVBoxLayout", "QHBoxLayout", "QVBoxLayout", "QFormLayout", "QGridLayout"]),
        "comment": "",
        "widgets": [],
        "plant": None,
        "import_version": rng.chance(0.25),
    }
    ndyn = 0
    for i, cls in ids:
        w = {"cls": cls, "id": i, "props": [], "handlers": []}
        cb = const_bindings(rng, cls)
        rng.shuffle(cb)
        seen = set()
        for name, expr in cb[:rng.randint(0, 3)]:
            base = name.split(".")[0]
            if base in seen:
                continue
            seen.add(base)
            w["props"].append([name, expr])
        if want_dynamic and rng.chance(0.6):
            others = [x for x in ids if x[0] != i]
            tgt = [t for t in DYN_TARGETS.get(cls, []) if t[0] not in seen]
            if tgt and others:
                prop, ty = rng.choice(tgt)
                e = dyn_expr(rng, others, ty)
                if e:
                    w["props"].append([prop, e])
                    ndyn += 1
        if want_dynamic and rng.chance(0.5):
            h = handler_for(rng, cls, [x for x in ids if x[0] != i])
            if h:
                w["handlers"].append(list(h))
        doc["widgets"].append(w)
    # an explicit id that is exactly a name qmluic generates for objects without id, followed by objects of that class
    # without id, each with a dynamic binding of its own: the generated names must steer around the id
    if want_dynamic and rng.chance(0.2) and dyn_sources(ids):
        cls, base = rng.choice([("QLabel", "label"), ("QPushButton", "pushButton"), ("QCheckBox", "checkBox")])
        if not any(w["id"] and w["id"].startswith(base) for w in doc["widgets"]):
            first = {"cls": cls, "id": base + rng.choice(["", "1", "1", "2"]), "props": [], "handlers": []}
            doc["widgets"].insert(rng.randint(0, len(doc["widgets"])), first)
            for _ in range(rng.randint(2, 4)):
                prop, ty = rng.choice(DYN_TARGETS[cls])
                e = dyn_expr(rng, ids, ty)
                if e:
                    doc["widgets"].append({"cls": cls, "id": None, "props": [[prop, e]], "handlers": []})
                    ndyn += 1
    # constant attached properties that the layout consumes (they exist only as attributes of the <layout> element): each
    # value is a number found nowhere else in the document, set by children in document order - so a higher row/column is
    # often set before a lower one
    lay = doc["layout"]
    if lay == "QGridLayout" and rng.chance(0.7):
        doc["layout_props"] = ["columns: %d" % rng.randint(2, 3)]
    if rng.chance(0.6):
        cols = int(doc.get("layout_props", ["columns: 0"])[0].split(":")[1]) if doc.get("layout_props") else 0
        marker = [100 + rng.randint(1, 20)]
        taken = {"columnStretch": set(), "rowStretch": set(), "columnMinimumWidth": set(), "rowMinimumHeight": set()}

        def mark(w, kind, index):
            if index in taken[kind] or not rng.chance(0.5):
                return
            taken[kind].add(index)
            marker[0] += rng.randint(1, 9)
            w["props"].insert(rng.randint(0, len(w["props"])), ["QLayout." + kind, str(marker[0])])
        for k, w in enumerate(doc["widgets"]):
            if lay == "QVBoxLayout":
                mark(w, "rowStretch", k)
            elif lay == "QHBoxLayout":
                mark(w, "columnStretch", k)
            elif lay == "QGridLayout" and cols:
                mark(w, "columnStretch", k % cols)
                mark(w, "rowStretch", k // cols)
                mark(w, "columnMinimumWidth", k % cols)
                # at most one per row AND per column: the pinned tree files this one under the child's column (a C12 defect,
                # DESIGN.md section 10), and the documents must be acceptable whichever index is used
                if (k % cols) + 1000 not in taken["rowMinimumHeight"]:
                    n0 = len(taken["rowMinimumHeight"])
                    mark(w, "rowMinimumHeight", k // cols)
                    if len(taken["rowMinimumHeight"]) > n0:
                        taken["rowMinimumHeight"].add((k % cols) + 1000)
    # a palette with roles bound on the palette itself (they apply to every colour group that does not bind the role) next
    # to explicit groups binding other roles; each default colour occurs nowhere else in the document
    if doc["widgets"] and rng.chance(0.25):
        w = rng.choice(doc["widgets"])
        roles = rng.sample(["window", "windowText", "base", "text", "button", "buttonText", "highlight", "toolTipBase", "brightText", "link"], rng.randint(2, 5))
        ndef = rng.randint(1, min(2, len(roles) - 1))
        extra = []
        for r in roles[:ndef]:
            extra.append(["palette." + r, '"#%02x%02x%02x"' % (rng.randint(17, 250), rng.randint(17, 250), rng.randint(17, 250))])
        for g in rng.sample(["active", "inactive", "disabled"], rng.randint(1, 3)):
            for r in rng.sample(roles[ndef:], rng.randint(1, len(roles) - ndef)):
                extra.append(["palette.%s.%s" % (g, r), rng.choice(['"#0000ff"', '"#00ff00"', '"#ff0000"', '"#ffffff"'])])
        rng.shuffle(extra)
        w["props"] += extra
    if want_dynamic and ndyn == 0:
        # force one dynamic binding on the first widget that can take it
        for w in doc["widgets"]:
            others = [x for x in ids if x[0] != w["id"]]
            used = set(p[0].split(".")[0] for p in w["props"])
            for prop, ty in DYN_TARGETS.get(w["cls"], []):
                if prop in used:
                    continue
                e = dyn_expr(rng, others, ty)
                if e:
                    w["props"].append([prop, e])
                    ndyn += 1
                    break
            if ndyn:
                break
    return doc


def markers(doc):
    """numbers that occur exactly once in the document, as the value of a constant attached property its layout consumes"""
    return sorted(int(p[1]) for w in doc["widgets"] for p in w["props"] if p[0].startswith("QLayout.") and p[1].isdigit() and int(p[1]) > 100)


def palette_defaults(doc):
    """[(role, (r, g, b))] of roles bound on a palette itself"""
    out = []
    for w in doc["widgets"]:
        for name, expr in w["props"]:
            parts = name.split(".")
            if parts[0] == "palette" and len(parts) == 2 and expr.startswith('"#') and len(expr) == 9:
                out.append((parts[1], (int(expr[2:4], 16), int(expr[4:6], 16), int(expr[6:8], 16))))
    return out


def render(doc):
    """-> (text, spans) where spans maps ("w", widget index, binding index) / ("plant",) /
    ("root", name) to (line, col_start, col_end), 1-based, end exclusive."""
    lines = ["import qmluic.QtWidgets" + (" 6.2" if doc.get("import_version") else ""), ""]   # "import version is ignored" warning
    spans = {}

    def emit(indent, text, key=None):
        lines.append(" " * indent + text)
        if key is not None:
            spans[key] = (len(lines), indent + 1, indent + 1 + len(text))

    if doc.get("comment"):
        emit(0, "// " + doc["comment"])
    emit(0, doc["root"] + " {")
    emit(4, "windowTitle: " + _q(doc["title"]), ("root", "windowTitle"))
    plant = doc.get("plant")
    if plant and plant["where"] == "root":
        emit(4, plant["text"], ("plant",))
    emit(4, doc["layout"] + " {")
    for lp in doc.get("layout_props", []):
        emit(8, lp)
    for wi, w in enumerate(doc["widgets"]):
        emit(8, w["cls"] + " {")
        if w["id"]:
            emit(12, "id: " + w["id"])
        for bi, (name, expr) in enumerate(w["props"]):
            emit(12, "%s: %s" % (name, expr), ("w", wi, bi))
        for hi, (name, body) in enumerate(w["handlers"]):
            emit(12, "%s: %s" % (name, body), ("h", wi, hi))
        if plant and plant["where"] == wi:
            emit(12, plant["text"], ("plant",))
        emit(8, "}")
    if plant and plant["where"] == "layout":
        emit(8, plant["text"], ("plant",))
    emit(4, "}")
    emit(0, "}")
    return "\n".join(lines) + "\n", spans


# ---------------------------------------------------------------- edit operators

def edit(rng, doc):
    """-> (new doc, operator name).  Operators are typed by which outputs they should touch
    (judged by the oracle from real golden contents, not from this label)."""
    d = copy.deepcopy(doc)
    ops = ["const", "comment", "title", "dyn", "rename_id", "add_widget", "drop_widget", "noop"]
    for _ in range(8):
        op = rng.choice(ops)
        if op == "noop":
            return d, op
        if op == "comment":
            d["comment"] = _s(rng) + " " + str(rng.randint(0, 999))
            return d, op
        if op == "title":
            d["title"] = _s(rng) + str(rng.randint(0, 99))
            return d, op
        if op == "const":
            cands = [(wi, bi) for wi, w in enumerate(d["widgets"]) for bi, p in enumerate(w["props"])
                     if p[1].startswith('"') and p[1].endswith('"') and p[1].count('"') == 2 and not p[0].startswith("palette")]
            if cands:
                wi, bi = rng.choice(cands)
                d["widgets"][wi]["props"][bi][1] = _q(_s(rng) + str(rng.randint(0, 99)))
                return d, op
        if op == "dyn":
            cands = [(wi, bi) for wi, w in enumerate(d["widgets"]) for bi, p in enumerate(w["props"])
                     if " + " in p[1] and p[1].rstrip()[-1].isdigit()]
            if cands:
                wi, bi = rng.choice(cands)
                e = d["widgets"][wi]["props"][bi][1]
                head = e.rstrip("0123456789")
                d["widgets"][wi]["props"][bi][1] = head + str(rng.randint(10, 99))
                return d, op
            cands = [(wi, hi) for wi, w in enumerate(d["widgets"]) for hi, h in enumerate(w["handlers"]) if "console.log(" in h[1]]
            if cands:
                wi, hi = rng.choice(cands)
                d["widgets"][wi]["handlers"][hi][1] = "console.log(%s)" % _q(_s(rng) + str(rng.randint(0, 99)))
                return d, op
        if op == "rename_id":
            # only rename a widget nobody refers to
            texts = " ".join(p[1] for w in d["widgets"] for p in w["props"]) + " " + " ".join(h[1] for w in d["widgets"] for h in w["handlers"])
            cands = [wi for wi, w in enumerate(d["widgets"]) if w["id"] and (w["id"] + ".") not in texts]
            if cands:
                wi = rng.choice(cands)
                d["widgets"][wi]["id"] = d["widgets"][wi]["id"] + "R%d" % rng.randint(0, 9)
                return d, op
        if op == "add_widget":
            used = set(w["id"] for w in d["widgets"])
            free = [x for x in WIDGET_CLASSES if x[0] not in used and not any(u.startswith(x[0] + "R") for u in used if u)]
            if free and len(d["widgets"]) < 7:
                i, cls = rng.choice(free)
                d["widgets"].append({"cls": cls, "id": i, "props": [list(rng.choice(const_bindings(rng, cls)))], "handlers": []})
                return d, op
        if op == "drop_widget":
            texts = " ".join(p[1] for w in d["widgets"] for p in w["props"]) + " " + " ".join(h[1] for w in d["widgets"] for h in w["handlers"])
            cands = [wi for wi, w in enumerate(d["widgets"]) if w["id"] and (w["id"] + ".") not in texts]
            if any(p[0].startswith("QLayout.") and p[1].isdigit() for w in d["widgets"] for p in w["props"]):
                cands = [wi for wi in cands if wi == len(d["widgets"]) - 1]   # positions carry attached values: only the last may go
            if cands and len(d["widgets"]) > 2:
                del d["widgets"][rng.choice(cands)]
                return d, op
    return d, "noop"


# ---------------------------------------------------------------- planted errors

def plant_kinds(doc):
    """(kind, where, text) candidates; `where` is "root", "layout" or a widget index.
    Every one of these is an unknown, ill-typed or unsupported binding (or handler) and must be
    diagnosed inside its own text."""
    out = []
    ws = doc["widgets"]

    def idx(cls):
        return [i for i, w in enumerate(ws) if w["cls"] == cls]

    anyw = list(range(len(ws)))
    for wi in anyw[:3]:
        out.append(("unknown-property", wi, "noSuchProperty: 1"))
        out.append(("unknown-signal", wi, "onNoSuchSignal: console.log(1)"))
        out.append(("type-mismatch-bool", wi, 'updatesEnabled: "yes"'))
        out.append(("type-mismatch-string", wi, "statusTip: 42"))
        out.append(("unknown-attached-type", wi, "NoSuchType.prop: 1"))
        out.append(("unknown-group-member", wi, "font.noSuchMember: 3"))
        # the same group named by two blocks on one object: members of both blocks are bindings of that object
        out.append(("unknown-group-member", wi, "font { noSuchMember: 3 } font { kerning: false }"))
        out.append(("undefined-reference", wi, "whatsThis: noSuchObject.text"))
        out.append(("readonly-property", wi, "width: 10"))
        out.append(("unsupported-shift", wi, 'accessibleName: "a" >> 1'))
        out.append(("unsupported-expression", wi, "minimumWidth: 1 ** 2"))
        out.append(("type-mismatch-ternary", wi, 'maximumWidth: true ? 1 : "x"'))
    # unsupported *dynamic* bindings: the constant pass leaves them "to be processed by the C++ pass", which must refuse them
    for wi in idx("QCheckBox"):
        i = ws[wi]["id"]
        if i:
            out.append(("dynamic-binding-on-spacer", "layout", "QSpacerItem { orientation: %s.checked ? Qt.Horizontal : Qt.Vertical }" % i))
            for wj in anyw[:2]:
                if wj != wi:
                    out.append(("dynamic-attached-property", wj, "QLayout.alignment: %s.checked ? Qt.AlignLeft : Qt.AlignRight" % i))
    for wi in idx("QSpinBox"):
        i = ws[wi]["id"]
        if i:
            out.append(("dynamic-spacer-size-member", "layout", "QSpacerItem { sizeHint { width: 20; height: %s.value } }" % i))
            out.append(("dynamic-spacer-size-member", "layout", "QSpacerItem { sizeHint.width: %s.value + 1 }" % i))
    # attached properties that the enclosing layout has no use for: nothing consumes them, so they must be reported
    # (by design a vertical box consumes rowStretch, a horizontal one columnStretch, a form row/column; all of them
    # spans and alignment; only a grid consumes everything)
    lay = doc["layout"]
    unused = {"QVBoxLayout": ["columnStretch: 1", "columnMinimumWidth: 12", "rowMinimumHeight: 7", "row: 1", "column: 1"],
              "QHBoxLayout": ["rowStretch: 2", "columnMinimumWidth: 12", "rowMinimumHeight: 7", "row: 1", "column: 1"],
              "QFormLayout": ["rowStretch: 2", "columnStretch: 1", "columnMinimumWidth: 12", "rowMinimumHeight: 7"]}.get(lay, [])
    for wi in anyw[:3]:
        for u in unused:
            out.append(("attached-unused-by-layout", wi, "QLayout." + u))
        out.append(("attached-unused-by-layout", wi, 'QTabWidget.title: "tab"'))
    out.append(("unknown-property", "root", "bogus: true"))
    out.append(("type-mismatch-string", "root", "styleSheet: 7"))
    out.append(("unknown-child-type", "layout", "QNoSuchWidget { }"))
    for wi in idx("QCheckBox") + idx("QPushButton"):
        out.append(("bad-handler-parameter-type", wi, "onToggled: function(x: QString) { console.log(x) }"))
        out.append(("too-many-handler-parameters", wi, "onToggled: function(a: bool, b: int) { }"))
        out.append(("handler-write-type-mismatch", wi, 'onReleased: %s.checkable = "no"' % (ws[wi]["id"] or "this")))
        # QAbstractButton.text has no notify signal: a dynamic read of it is unobservable
        for wj in idx("QLabel"):
            if ws[wi]["id"]:
                out.append(("unobservable-read", wj, "accessibleDescription: %s.text" % ws[wi]["id"]))
    for wi in idx("QSpinBox"):
        out.append(("overloaded-signal", wi, "onValueChanged: function(v: int) { console.log(v) }"))
        out.append(("method-bad-arg-count", wi, "onEditingFinished: %s.setValue(1, 2)" % (ws[wi]["id"] or "this")))
    # remove plants whose property name is already bound on that widget
    res = []
    for kind, where, text in out:
        name = text.split(":")[0].split(".")[0].strip()
        if isinstance(where, int):
            w = ws[where]
            taken = set(p[0].split(".")[0] for p in w["props"]) | set(h[0] for h in w["handlers"])
            if name in taken:
                continue
        res.append((kind, where, text))
    return res


SYNTAX_PLANTS = [("syntax-error", 'toolTip: "a" +'), ("syntax-error", "toolTip: (1"), ("syntax-error", "enabled: : true")]

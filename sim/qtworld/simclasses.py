"""Synthetic classes of World B.  One description feeds three generators:
  - the metatypes JSON handed to `qmluic --foreign-types` (with default-argument clones
    expanded into separate entries exactly as moc does, indistinguishable from overloads),
  - the C++ class stubs the generated header is compiled against,
  - the reference model's metadata.
The description itself is the independent "C++ truth": it knows which JSON entries are clones
of one C++ signal, which qmluic can only guess.
"""
import json

INT, UINT, REAL, BOOL, STR, STRLIST = "int", "uint", "double", "bool", "QString", "QStringList"
MODE, OPTS = "SimWidget::Mode", "SimWidget::Options"
PW, PM = "SimWidget*", "SimModel*"

MODE_VALUES = ["ModeA", "ModeB", "ModeC"]          # 0,1,2
OPT_VALUES = [("OptA", 1), ("OptB", 2), ("OptC", 4)]


def P(name, ty, notify=None, layer=None, constant=False, write=True, emits=True, read_fn=None, write_fn=None, default=None):
    return {"name": name, "type": ty, "notify": notify, "layer": layer, "constant": constant, "write": write, "emits": emits,
            "read_fn": read_fn or name, "write_fn": (write_fn or ("set" + name[0].upper() + name[1:])) if write else None, "default": default}


def cap(s):
    return s[0].upper() + s[1:]


CLASSES = [
    {"name": "SimModel", "super": "QObject", "widget": False,
     "props": [
         P("title", STR, ("titleChanged", [STR]), 0),
         P("count", INT, ("countChanged", [INT]), 0),
         P("next", PM, ("nextChanged", []), 0),
     ],
     "signals": [], "slots": [], "enums": []},
    {"name": "SimWidget", "super": "QWidget", "widget": True,
     "props": [
         # layer 0: sources, never bound; mutated by the scheduler and by handlers
         P("intVal", INT, ("intValChanged", [INT]), 0),
         P("uintVal", UINT, ("uintValChanged", [UINT]), 0),
         P("realVal", REAL, ("realValChanged", [REAL]), 0),
         P("flag", BOOL, ("flagChanged", [BOOL]), 0),
         P("text", STR, ("textChanged", [STR]), 0),           # notify has overloads textChanged() / textChanged(QString)
         P("mode", MODE, ("modeChanged", []), 0),
         P("opts", OPTS, ("optsChanged", []), 0),
         P("items", STRLIST, ("itemsChanged", [STRLIST]), 0),
         P("peer", PW, ("peerChanged", []), 0),
         P("model", PM, ("modelChanged", [PM]), 0),
         # second sources of a type (two different notifying properties of ONE object), and a gadget-valued source
         P("pickVal", INT, ("pickValChanged", [INT]), 0),
         P("text2", STR, ("text2Changed", [STR]), 0),
         P("flag2", BOOL, ("flag2Changed", [BOOL]), 0),
         P("pickFont", "QFont", ("pickFontChanged", ["QFont"]), 0),
         # layer 1: bound, readable by layer 2
         P("mid1", INT, ("mid1Changed", [INT]), 1),
         P("midText", STR, ("midTextChanged", []), 1),
         P("midFlag", BOOL, ("midFlagChanged", [BOOL]), 1),
         P("midPeer", PW, ("midPeerChanged", []), 1),
         # layer 2: sinks, bound and never read
         P("out1", INT, None, 2), P("out2", INT, None, 2), P("outU", UINT, None, 2), P("outReal", REAL, None, 2),
         P("outText", STR, None, 2), P("outText2", STR, None, 2), P("outFlag", BOOL, None, 2), P("outMode", MODE, None, 2),
         P("outOpts", OPTS, None, 2), P("outItems", STRLIST, None, 2), P("outPeer", PW, None, 2),
         P("font", "QFont", None, 2),
         # special members
         P("constVal", INT, None, None, constant=True, write=False),
         P("silentVal", INT, None, None),                      # non-constant, no notify: reads must be rejected
         P("silentPeer", PW, None, None),                      # re-pointable link without notify: reads through it must be rejected
         P("constPeer", PW, None, None, constant=True, write=False),
         # naming-collision bait for C16
         P("barBaz", INT, None, 2), P("barBaz1", INT, None, 2), P("baz", INT, None, 2), P("baz1", INT, None, 2), P("z", INT, None, 2), P("z1", INT, None, 2),
     ],
     # signals with defaults expand to clones: poked(int,bool) poked(int) poked()
     "signals": [
         {"name": "poked", "args": [(INT, "n", "0"), (BOOL, "on", "false")]},
         {"name": "picked", "args": [(INT, "i", None)]},
         {"name": "picked", "args": [(STR, "s", None)]},           # true overload
         {"name": "fired", "args": []},
         {"name": "tuned", "args": [(INT, "a", None), (INT, "b", None), (BOOL, "c", None)]},
         {"name": "renamed", "args": [(STR, "name", None), (INT, "gen", "1")]},
         {"name": "textChanged", "args": []},                       # overload of the notify signal
         # overload sets that mix default-argument clones with true overloads (must be treated as ambiguous):
         {"name": "moved", "args": [(INT, "pos", "0")]},             # entries moved(int), moved()
         {"name": "moved", "args": [(STR, "where", None)]},          # + moved(QString): both extend moved()
         {"name": "dialed", "args": [(INT, "a", None), (INT, "b", "0")]},   # entries dialed(int,int), dialed(int)
         {"name": "dialed", "args": [(INT, "a", None), (STR, "s", None)]},  # + dialed(int,QString)
     ],
     "slots": [
         {"name": "bump", "args": [(INT, "n")]},
         {"name": "say", "args": [(STR, "s")]},
         {"name": "reset", "args": []},
         {"name": "store", "args": [(INT, "i"), (STR, "s")]},
     ],
     "enums": [
         {"name": "Mode", "isFlag": False, "values": MODE_VALUES},
         {"name": "Options", "alias": "Option", "isFlag": True, "values": [v for v, _ in OPT_VALUES]},
     ]},
    {"name": "SimPanel", "super": "SimWidget", "widget": True,
     "props": [P("level", INT, ("levelChanged", [INT]), 0), P("outLevel", INT, None, 2)],
     "signals": [{"name": "raised", "args": [(INT, "by", None)]}],
     "slots": [{"name": "lower", "args": []}],
     "enums": []},
]

BY_NAME = {c["name"]: c for c in CLASSES}

# ---------------------------------------------------------------- real Qt classes, taken from the working tree's metatypes

REAL_WHITELIST = ["QAbstractButton", "QCheckBox", "QPushButton", "QLineEdit", "QAbstractSpinBox", "QSpinBox", "QDoubleSpinBox",
                  "QAbstractSlider", "QSlider", "QLabel", "QProgressBar"]
REAL_SUPER = {"QLabel": "QWidget"}        # QFrame is skipped in the stubs
# C++ truth the metatypes cannot express: which same-named entries are default-argument clones of ONE function.
# Every other same-named set is a set of true overloads.
REAL_CLONE_CHAINS = {("QAbstractButton", "clicked"): [("bool", "checked", "false")]}
REAL_DEFAULTS = {"maximum": {"int": 99, "double": 99.0}, "singleStep": {"int": 1, "double": 1.0}, "pageStep": {"int": 10}, "decimals": {"int": 2},
                 "tracking": {"bool": True}, "frame": {"bool": True}, "keyboardTracking": {"bool": True}, "textVisible": {"bool": True},
                 "maxLength": {"int": 32767}, "autoRepeatDelay": {"int": 300}, "autoRepeatInterval": {"int": 100}, "displayIntegerBase": {"int": 10}}
NOT_A_SOURCE = {"sliderPosition", "cursorPosition"}   # notify signals of these are used as plain signals
REAL_SLOT_EFFECTS_CXX = {
    ("QLineEdit", "clear"): 'setText(QString());',
    ("QAbstractButton", "toggle"): "setChecked(!isChecked());",
    ("QAbstractSpinBox", "stepUp"): "simStep(1);",
    ("QAbstractSpinBox", "stepDown"): "simStep(-1);",
    ("QProgressBar", "reset"): "setValue(minimum());",
}
REAL_LOADED = {"dir": None}
SIMPLE_TYPES = {"bool": BOOL, "int": INT, "double": REAL, "QString": STR}


def load_real(metatypes_dir):
    """append the whitelisted real classes, read from the metatypes JSON of the working tree (idempotent)"""
    import os
    if REAL_LOADED["dir"] == metatypes_dir:
        return
    if REAL_LOADED["dir"] is not None:
        del CLASSES[3:]
    raw = {}
    for fn in sorted(os.listdir(metatypes_dir)):
        if fn.endswith(".json"):
            for u in json.load(open(os.path.join(metatypes_dir, fn), encoding="utf-8")):
                for c in u.get("classes", []):
                    raw[c["className"]] = c
    for n in REAL_WHITELIST:
        c = raw.get(n)
        if c is None:
            continue
        props = []
        sigs_by_name = {}
        for s in c.get("signals", []):
            ats = [a["type"] for a in s.get("arguments", [])]
            if all(t in SIMPLE_TYPES for t in ats):
                sigs_by_name.setdefault(s["name"], []).append(ats)
        for p in c.get("properties", []):
            if p["type"] not in SIMPLE_TYPES:
                continue
            notify = None
            if p.get("notify") and p["name"] not in NOT_A_SOURCE:
                ents = sigs_by_name.get(p["notify"], [])
                if [p["type"]] in ents:
                    notify = (p["notify"], [p["type"]])
                elif [] in ents:
                    notify = (p["notify"], [])
            layer = 0 if (notify and p.get("write")) else (2 if p.get("write") else None)
            d = REAL_DEFAULTS.get(p["name"], {}).get(p["type"])
            props.append(P(p["name"], p["type"], notify, layer, constant=bool(p.get("constant")), write=bool(p.get("write")),
                           read_fn=p.get("read"), write_fn=p.get("write"), default=d))
        signals = []
        notify_names = set(p["notify"][0] for p in props if p["notify"])
        for name, ents in sorted(sigs_by_name.items()):
            chain = REAL_CLONE_CHAINS.get((n, name))
            if chain:
                signals.append({"name": name, "args": [(t, a, dflt) for t, a, dflt in chain], "real": True})
                continue
            for ats in ents:
                signals.append({"name": name, "args": [(t, "a%d" % i, None) for i, t in enumerate(ats)], "real": True,
                                "notify_overload": name in notify_names})
        slots = []
        for s in c.get("slots", []):
            if s.get("access") == "public" and (n, s["name"]) in REAL_SLOT_EFFECTS_CXX and not s.get("arguments"):
                slots.append({"name": s["name"], "args": []})
        sup = REAL_SUPER.get(n) or (c.get("superClasses") or [{"name": "QWidget"}])[0]["name"]
        CLASSES.append({"name": n, "super": sup, "widget": True, "real": True, "props": props, "signals": signals, "slots": slots, "enums": [],
                        "json_signal_entries": {k: v for k, v in sigs_by_name.items()}})
    BY_NAME.clear()
    BY_NAME.update({c["name"]: c for c in CLASSES})
    SLOT_EFFECTS_CXX.update(REAL_SLOT_EFFECTS_CXX)
    REAL_LOADED["dir"] = metatypes_dir


def real_classes():
    return [c for c in CLASSES if c.get("real")]


def class_chain(name):
    out = []
    while name in BY_NAME:
        out.append(BY_NAME[name])
        name = BY_NAME[name]["super"]
    return out


def all_props(cls):
    res = []
    for c in reversed(class_chain(cls)):
        res += c["props"]
    return res


def find_prop(cls, name):
    for p in all_props(cls):
        if p["name"] == name:
            return p
    return None


def all_signals(cls):
    res = []
    for c in class_chain(cls):
        for s in c["signals"]:
            res.append((c["name"], s))
        if c.get("real"):
            continue       # real classes list every signal entry, notify signals included
        for p in c["props"]:
            if p["notify"]:
                res.append((c["name"], {"name": p["notify"][0], "args": [(t, "v", None) for t in p["notify"][1]], "notify_of": p["name"]}))
    return res


def all_slots(cls):
    res = []
    for c in class_chain(cls):
        for s in c["slots"]:
            res.append((c["name"], s))
    return res


def is_subclass(cls, base):
    return any(c["name"] == base for c in class_chain(cls))


# ---------------------------------------------------------------- metatypes JSON

def json_type(t):
    return t


def signal_entries(sig):
    """moc emits one entry per arity for trailing default arguments (clones)."""
    args = sig["args"]
    ndef = 0
    for a in reversed(args):
        if a[2] is not None:
            ndef += 1
        else:
            break
    out = []
    for n in range(len(args), len(args) - ndef - 1, -1):
        e = {"access": "public", "name": sig["name"], "returnType": "void"}
        if n:
            e["arguments"] = [{"name": a[1], "type": json_type(a[0])} for a in args[:n]]
        out.append(e)
    return out


def metatypes_json():
    classes = []
    for c in CLASSES:
        if c.get("real"):
            continue     # real classes come from contrib/metatypes themselves
        props = []
        for p in c["props"]:
            d = {"constant": p["constant"], "designable": True, "final": False, "name": p["name"],
                 "read": p["name"], "required": False, "scriptable": True, "stored": True,
                 "type": json_type(p["type"]), "user": False}
            if p["write"]:
                d["write"] = "set" + cap(p["name"])
            if p["notify"]:
                d["notify"] = p["notify"][0]
            props.append(d)
        sigs = []
        for p in c["props"]:
            if p["notify"]:
                e = {"access": "public", "name": p["notify"][0], "returnType": "void"}
                if p["notify"][1]:
                    e["arguments"] = [{"name": "v", "type": json_type(t)} for t in p["notify"][1]]
                sigs.append(e)
        for s in c["signals"]:
            sigs += signal_entries(s)
        slots = []
        for s in c["slots"]:
            e = {"access": "public", "name": s["name"], "returnType": "void"}
            if s["args"]:
                e["arguments"] = [{"name": a[1], "type": json_type(a[0])} for a in s["args"]]
            slots.append(e)
        d = {"className": c["name"], "object": True, "qualifiedClassName": c["name"], "properties": props,
             "signals": sigs, "slots": slots, "superClasses": [{"access": "public", "name": c["super"]}]}
        if c["enums"]:
            d["enums"] = []
            for e in c["enums"]:
                ee = {"isClass": False, "isFlag": e["isFlag"], "name": e["name"], "values": e["values"]}
                if e.get("alias"):
                    ee["alias"] = e["alias"]
                d["enums"].append(ee)
        classes.append(d)
    return json.dumps([{"classes": classes, "inputFile": "simclasses.h", "outputRevision": 68}], indent=1)


# ---------------------------------------------------------------- C++ stubs

def cxx_param(t):
    if t in (STR, STRLIST, "QFont"):
        return "const %s &" % t
    return t + (" " if not t.endswith("*") else "")


def cxx_default(t):
    if t in (INT, UINT):
        return "0"
    if t == REAL:
        return "0.0"
    if t == BOOL:
        return "false"
    if t.endswith("*"):
        return "nullptr"
    if t == MODE:
        return "SimWidget::ModeA"
    return ""


def default_value(p):
    """initial value of a property in the stubs and in the reference model (Python value)"""
    if p["default"] is not None:
        return p["default"]
    t = p["type"]
    if p["name"] == "constVal":
        return 77
    return {INT: 0, UINT: 0, REAL: 0.0, BOOL: False, STR: "", STRLIST: (), MODE: 0, OPTS: 0, PW: None, PM: None}.get(t)


def cxx_literal(p):
    v = default_value(p)
    t = p["type"]
    if t == "QFont" or v is None and not t.endswith("*"):
        return ""
    if t == BOOL:
        return "true" if v else "false"
    if t in (INT, UINT):
        return str(v)
    if t == REAL:
        return repr(float(v))
    if t.endswith("*"):
        return "nullptr"
    if t == MODE:
        return "SimWidget::ModeA"
    return ""


def cxx_stubs():
    """C++ declarations generated from the same description as the metatypes JSON (synthetic classes) or from the
    metatypes JSON of the working tree itself (whitelisted real classes)."""
    L = ["// generated from sim/qtworld/simclasses.py - do not edit", "#pragma once", '#include "qtsim.h"', ""]
    for c in CLASSES:
        L.append("class %s;" % c["name"])
    L.append("")
    for c in CLASSES:
        n = c["name"]
        L.append("class %s : public %s" % (n, c["super"]))
        L.append("{")
        L.append("public:")
        L.append('    explicit %s(const char *simName) : %s(simName) { simClass_ = "%s"; }' % (n, c["super"], n))
        for e in c["enums"]:
            if e["isFlag"]:
                L.append("    enum %s { %s };" % (e["alias"], ", ".join("%s = %d" % (v, k) for v, k in OPT_VALUES)))
                L.append("    typedef QFlags<%s> %s;" % (e["alias"], e["name"]))
            else:
                L.append("    enum %s { %s };" % (e["name"], ", ".join(e["values"])))
        if n == "QAbstractSpinBox":
            L.append("    virtual void simStep(int) {}")
        if n == "QSpinBox":
            L.append("    void simStep(int d) override { setValue(value() + d * singleStep()); }")
        if n == "QDoubleSpinBox":
            L.append("    void simStep(int d) override { setValue(value() + d * singleStep()); }")
        for p in c["props"]:
            t = p["type"]
            L.append("    %s %s() const { return %s_; }" % (t, p["read_fn"], p["name"]))
            if p["write"]:
                L.append("    void %s(%sv)" % (p["write_fn"], cxx_param(t)))
                L.append("    {")
                if p["notify"]:
                    L.append('        const bool changed = !(%s_ == v);' % p["name"])
                L.append('        %s_ = v;' % p["name"])
                L.append('        simTraceSet(this, "%s", simRepr(v));' % p["name"])
                if p["notify"]:
                    L.append('        if (changed || simAlwaysEmits("%s")) {' % p["name"])
                    if c.get("real"):
                        # a real setter emits every overload of its notify signal
                        for o, sg in signal_overloads(n, p["notify"][0]):
                            ats = [a[0] for a in sg["args"]]
                            if ats == [t]:
                                L.append("            Q_EMIT %s(%s_);" % (sg["name"], p["name"]))
                            elif ats == [STR] and t in (INT, REAL):
                                L.append("            Q_EMIT %s(QString::number(v));" % sg["name"])
                            elif ats == []:
                                L.append("            Q_EMIT %s();" % sg["name"])
                    elif p["name"] == "text":
                        L.append("            Q_EMIT textChanged(text_);")
                        L.append("            Q_EMIT textChanged();")
                    else:
                        # like most Qt classes: emit the stored member, not the caller's argument
                        L.append("            Q_EMIT %s(%s);" % (p["notify"][0], (p["name"] + "_") if p["notify"][1] else ""))
                    L.append("        }")
                L.append("    }")
        L.append("    // signals")
        if not c.get("real"):
            for p in c["props"]:
                if p["notify"]:
                    ats = list(p["notify"][1])
                    params = ", ".join("%sa%d" % (cxx_param(t), i) for i, t in enumerate(ats))
                    argl = "".join(", a%d" % i for i in range(len(ats)))
                    ptypes = ", ".join(cxx_param(t).strip() for t in ats)
                    L.append("    void %s(%s) { simEmit(this, static_cast<void (%s::*)(%s)>(&%s::%s)%s); }" % (p["notify"][0], params, n, ptypes, n, p["notify"][0], argl))
        for sg in c["signals"]:
            params = ", ".join("%s%s%s" % (cxx_param(a[0]), a[1], (" = " + a[2]) if a[2] is not None else "") for a in sg["args"])
            argl = "".join(", " + a[1] for a in sg["args"])
            ptypes = ", ".join(cxx_param(a[0]).strip() for a in sg["args"])
            L.append("    void %s(%s) { simEmit(this, static_cast<void (%s::*)(%s)>(&%s::%s)%s); }" % (sg["name"], params, n, ptypes, n, sg["name"], argl))
        L.append("    // slots")
        for sl in c["slots"]:
            params = ", ".join("%s%s" % (cxx_param(a[0]), a[1]) for a in sl["args"])
            reprs = ", ".join("simRepr(%s)" % a[1] for a in sl["args"])
            L.append("    void %s(%s)" % (sl["name"], params))
            L.append("    {")
            L.append('        simTraceCall(this, "%s", {%s});' % (sl["name"], reprs))
            L.append("        " + SLOT_EFFECTS_CXX.get((n, sl["name"]), ""))
            L.append("    }")
        L.append("private:")
        for p in c["props"]:
            d = cxx_literal(p)
            L.append("    %s %s_%s;" % (p["type"], p["name"], (" = " + d) if d else ""))
        L.append("};")
        if n == "SimWidget":
            L.append("Q_DECLARE_OPERATORS_FOR_FLAGS(SimWidget::Options)")
        L.append("")
    return "\n".join(L) + "\n"


# what slots do (mirrored by the reference model in model.py: SLOT_EFFECTS)
SLOT_EFFECTS_CXX = {
    ("SimWidget", "bump"): "setIntVal(intVal() + n);",
    ("SimWidget", "say"): "setText(s);",
    ("SimWidget", "reset"): "setIntVal(0); setFlag(false);",
    ("SimWidget", "store"): "",
    ("SimPanel", "lower"): "setLevel(level() - 1);",
}


def cxx_dispatch():
    """driver-side reflection generated from the description: set / get / emit by name"""
    L = ["// generated from sim/qtworld/simclasses.py - do not edit", "#pragma once", '#include "simclasses.h"', '#include "simdriver_rt.h"', ""]
    # setters
    L.append("inline bool simSetProperty(QObject *o, const std::string &prop, const SimValue &v)")
    L.append("{")
    for c in reversed(CLASSES):  # most derived first
        n = c["name"]
        L.append("    if (auto *x = dynamic_cast<%s *>(o)) {" % n)
        for p in all_props(n):
            if not p["write"]:
                continue
            L.append('        if (prop == "%s") { x->%s(%s); return true; }' % (p["name"], p["write_fn"], conv_from_value(p["type"])))
        L.append("    }")
    L.append("    return simSetBuiltinProperty(o, prop, v);")
    L.append("}")
    L.append("")
    L.append("inline void simDumpProperties(QObject *o, std::ostream &os)")
    L.append("{")
    for c in reversed(CLASSES):
        n = c["name"]
        L.append("    if (auto *x = dynamic_cast<%s *>(o)) {" % n)
        for p in all_props(n):
            L.append('        os << "state " << o->simName() << " %s " << simRepr(x->%s()) << "\\n";' % (p["name"], p["read_fn"]))
        L.append("        simDumpBuiltinProperties(o, os);")
        L.append("        return;")
        L.append("    }")
    L.append("    simDumpBuiltinProperties(o, os);")
    L.append("}")
    L.append("")
    L.append("inline bool simEmitSignal(QObject *o, const std::string &sig, const std::vector<SimValue> &a)")
    L.append("{")
    for c in reversed(CLASSES):
        n = c["name"]
        L.append("    if (auto *x = dynamic_cast<%s *>(o)) {" % n)
        for owner, s in all_signals(n):
            key = s["name"] + "(" + ",".join(t for t, _, _ in s["args"]) + ")"
            call = ", ".join(conv_from_value(t, "a[%d]" % i) for i, (t, _, _) in enumerate(s["args"]))
            ptypes = ", ".join(cxx_param(t).strip() for t, _, _ in s["args"])
            L.append('        if (sig == "%s" && a.size() == %d) { (x->*static_cast<void (%s::*)(%s)>(&%s::%s))(%s); return true; }'
                     % (key, len(s["args"]), owner, ptypes, owner, s["name"], call))
        L.append("    }")
    L.append("    return simEmitBuiltinSignal(o, sig, a);")
    L.append("}")
    L.append("")
    L.append("inline QObject *simCreate(const std::string &cls, const char *name, void *where)")
    L.append("{")
    for c in CLASSES:
        L.append('    if (cls == "%s") return where ? new (where) %s(name) : new %s(name);' % (c["name"], c["name"], c["name"]))
    L.append("    return simCreateBuiltin(cls, name, where);")
    L.append("}")
    L.append("inline void simRegisterAllSignals()")
    L.append("{")
    L.append("    simRegisterBuiltinSignals();")
    for c in CLASSES:
        n = c["name"]
        for owner, s in all_signals(n):
            if owner != n:
                continue
            key = s["name"] + "(" + ",".join(t for t, _, _ in s["args"]) + ")"
            ptypes = ", ".join(cxx_param(t).strip() for t, _, _ in s["args"])
            L.append('    simRegisterSignal(static_cast<void (%s::*)(%s)>(&%s::%s), "%s::%s");' % (n, ptypes, n, s["name"], n, key))
    L.append("}")
    L.append("inline size_t simSizeOf(const std::string &cls)")
    L.append("{")
    for c in CLASSES:
        L.append('    if (cls == "%s") return sizeof(%s);' % (c["name"], c["name"]))
    L.append("    return simSizeOfBuiltin(cls);")
    L.append("}")
    return "\n".join(L) + "\n"


def conv_from_value(t, v="v"):
    if t == INT:
        return "%s.asInt()" % v
    if t == UINT:
        return "%s.asUInt()" % v
    if t == REAL:
        return "%s.asDouble()" % v
    if t == BOOL:
        return "%s.asBool()" % v
    if t == STR:
        return "%s.asString()" % v
    if t == STRLIST:
        return "%s.asStringList()" % v
    if t == MODE:
        return "static_cast<SimWidget::Mode>(%s.asInt())" % v
    if t == OPTS:
        return "SimWidget::Options(%s.asInt())" % v
    if t == PW:
        return "dynamic_cast<SimWidget *>(%s.asObject())" % v
    if t == PM:
        return "dynamic_cast<SimModel *>(%s.asObject())" % v
    if t == "QFont":
        return "%s.asFont()" % v
    raise ValueError(t)


def signal_overloads(cls, name):
    """all C++ signal functions called `name` visible in cls: [(owner, sig)]"""
    return [(o, s) for o, s in all_signals(cls) if s["name"] == name]

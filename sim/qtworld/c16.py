"""C16 — the support header is self-consistent, valid C++ over the documented Qt API.

Build step of every case (labelled as such, it is input generation, not a schedule property):
the header compiles as C++17 with g++ and clang++ in both QT_NO_DEBUG settings against
declarations generated from the same type information.  Runtime clauses decided by simulation:
guard/observer capacity and index uniqueness under nested delivery with sanitizers; string
literals denote the source strings.
"""
from ..cliworld.engine import V
from . import build, gen, qtcheck, world

ID = "C16"
LEVEL = "exploration"
ENGINE = "qtworld"

SYNTAX = (("g++", ()), ("g++", ("-DQT_NO_DEBUG",)), ("clang++-14", ("-DQT_NO_DEBUG",)))


def tier_params(tier):
    if tier == "thorough":
        return {"cases": 6000, "histories": 4, "events": 50, "wall_budget_s": 3300}
    return {"cases": 160, "histories": 2, "events": 30, "wall_budget_s": 900}


def prepare(repo):
    build.setup(repo)


def gen_actions_doc(r, tn):
    """a form with QAction children (plain, checkable, static separators), an actions list, and bindings and handlers that
    read and write the actions - also the ones that end up as separators.  Compile-only: `Ui::<Type>` (from the .ui, by the
    stand-in uic) must have every member the header names."""
    n = r.randint(2, 5)
    acts = []
    for k in range(n):
        kind = r.weighted([(4, "plain"), (3, "checkable"), (3, "separator")])
        acts.append({"id": ("sep%d" if kind == "separator" else "act%d") % k, "kind": kind})
    if not any(a["kind"] != "separator" for a in acts):
        acts[0] = {"id": "act0", "kind": "checkable"}
    ref_seps = r.chance(0.5)     # whether expressions may name a separator

    def anyact():
        pool = [a for a in acts if a["kind"] != "separator" or ref_seps]
        return r.choice(pool)

    def boolexpr():
        k = r.below(6)
        if k == 0:
            return "chk.checked"
        if k == 1:
            return "!chk.checked"
        if k == 2:
            return "edit.text != \"\""
        a = anyact()
        p = r.choice(["enabled", "visible"] + (["checked"] if a["kind"] == "checkable" else []))
        return "%s.%s" % (a["id"], p) if k < 5 else "(%s.%s && chk.checked)" % (a["id"], p)

    def strexpr():
        k = r.below(3)
        if k == 0:
            return "edit.text"
        if k == 1:
            return "\"t: \" + edit.text"
        return "%s.text" % anyact()["id"]

    L = ["import qmluic.QtWidgets", "", "%s {" % r.choice(["QWidget", "QDialog"]), "    id: root",
         "    actions: [%s]" % ", ".join(a["id"] for a in acts)]
    if r.chance(0.4):
        L.append("    windowTitle: %s" % strexpr())
    seps = []
    for a in acts:
        if a["kind"] == "separator":
            L.append("    QAction { id: %s; separator: true }" % a["id"])
            seps.append(a["id"])
            continue
        L.append("    QAction {")
        L.append("        id: %s" % a["id"])
        if a["kind"] == "checkable":
            L.append("        checkable: true")
        if r.chance(0.5):
            L.append("        text: %s" % (strexpr() if r.chance(0.5) else "\"Act %s\"" % a["id"]))
        for p in r.sample(["enabled", "visible"] + (["checked"] if a["kind"] == "checkable" else []), r.randint(0, 2)):
            e = boolexpr()
            if not e.startswith(a["id"] + "."):
                L.append("        %s: %s" % (p, e))
        if r.chance(0.4):
            L.append(r.choice(["        onTriggered: edit.clear()", "        onTriggered: function(on: bool) { btn.enabled = on }",
                               "        onToggled: function(on: bool) { chk.checked = on }", "        onHovered: { btn.flat = !btn.flat }"]))
        L.append("    }")
    L += ["    QVBoxLayout {", "        QCheckBox { id: chk }", "        QLineEdit { id: edit; enabled: %s }" % boolexpr(),
          "        QPushButton { id: btn; enabled: %s }" % boolexpr(), "    }", "}"]
    return {"kind": "actiondoc", "c16_kind": "actions", "qml": "\n".join(L) + "\n", "type_name": tn, "separators": seps}


def gen_returns_doc(r, tn):
    """block bindings with several `return`s whose operands have different static types: null / [] first or last, then an
    object or list of the right or of the wrong type.  The wrong ones must be refused; whatever is accepted must compile
    (compile-only)."""
    valid_only = r.chance(0.4)
    L = ["import qmluic.QtWidgets", "", "QWidget {", "    id: root", "    QVBoxLayout {",
         "        SimWidget { id: w1 }", "        SimWidget { id: w2 }", "        SimPanel { id: w3 }"]
    ptr_ok = ["w2", "w1.peer", "(w3 as SimWidget)", "w2.peer"]
    ptr_bad = ["w1.model", "root", "w3.model"]
    lst_ok = ["w1.items", "[w1.text, \"x\"]", "w2.items"]
    lst_bad = ["w1.text", "w1.intVal"]
    targets = [("outPeer", "null", ptr_ok, ptr_bad), ("outItems", "[]", lst_ok, lst_bad)]
    shapes = 0
    for k in range(r.randint(1, 3)):
        L.append("        SimWidget {")
        L.append("            id: t%d" % k)
        for tgt, empty, ok, bad in r.sample(targets, r.randint(1, 2)):
            val = r.choice(ok) if (valid_only or r.chance(0.5)) else r.choice(bad)
            first, second = (empty, val) if r.chance(0.6) else (val, empty)
            form = r.below(3)
            if form == 0:
                body = "{ if (w1.flag) { return %s; } return %s; }" % (first, second)
            elif form == 1:
                body = "{ if (w1.flag) { return %s; } else if (w2.flag) { return %s; } return %s; }" % (first, r.choice(ok), second)
            else:
                body = "{ switch (w1.intVal) { case 0: return %s; case 1: return %s; default: return %s; } }" % (first, second, r.choice(ok))
            L.append("            %s: %s" % (tgt, body))
            shapes += 1
        L.append("        }")
    L += ["    }", "}"]
    return {"kind": "actiondoc", "c16_kind": "returns", "qml": "\n".join(L) + "\n", "type_name": tn, "separators": []}


def run_action_case(case, env, stats):
    import re
    probes = stats["probes"]
    wd = env.fresh_dir("qt")
    tr = build.translate(env, case["qml"], case["type_name"], wd)
    stats["runs"] += 1
    if tr["exit"] != 0 or tr["ui"] is None or tr["header"] is None:
        qtcheck._bump(probes, "generated_documents_rejected_by_qmluic")
        stats.setdefault("notes", []).append("rejected action document: %s" % [l for l in tr["stderr"].splitlines() if l.startswith("error")][:2])
        return [], [], {"document": case["qml"][:1500], "rejected": True}
    qtcheck._bump(probes, "documents_accepted")
    viol = []
    whole = qtcheck.header_is_whole(tr["header"], case["type_name"])
    if whole is not None:
        return [V("compile", "c16:header-incomplete", "exit 0, but the support header is not a complete translation unit: %s" % whole)], [], None
    b = build.build_driver(case["type_name"], tr["ui"], tr["header"], wd, syntax_compilers=SYNTAX)
    stats["sim_steps"]["translation_units_compiled"] = stats["sim_steps"].get("translation_units_compiled", 0) + 1
    for stage, text in sorted(b["errors"].items()):
        locs = re.findall(r"(\S+?):\d+:\d+: error:", text)
        if locs and all(("/ui_" in l or l.endswith("driver.cpp")) for l in locs):
            raise RuntimeError("harness: compile error outside the generated header (%s):\n%s" % (stage, text[:1500]))
        # a member of Ui::<Type> that the header names but the .ui does not declare
        missing = set(re.findall(r"no member named [‘']([A-Za-z_0-9]+)[’'] in [‘']Ui::", text)) | set(re.findall(r"[‘']class Ui::\w+[’'] has no member named [‘']([A-Za-z_0-9]+)[’']", text))
        if missing and missing <= set(case.get("separators", [])):
            key = "separator-action-referenced"
            detail = ("accepted document; the .ui turns QAction { id: %s; separator: true } into <addaction name=\"separator\"/> and declares no such object, "
                      "but the support header still names this->ui_->%s because another expression reads it" % (sorted(missing)[0], sorted(missing)[0]))
        else:
            key = qtcheck.classify_compile_error(text, tr["header"])
            detail = "accepted document, but the header does not compile"
        viol.append(V("compile", "c16:cxx-compile:" + key, "%s (%s):\n%s\n--- document\n%s" % (detail, stage, "\n".join(text.splitlines()[:10]), case["qml"][:3000]), stage=stage))
    if any(s in tr["header"] for s in case.get("separators", [])):
        qtcheck._bump(probes, "action_documents_whose_header_names_a_separator")
    fps = ["actiondoc|%s" % qtcheck.hash_text(case["qml"])]
    return viol, fps, {"document": case["qml"][:1500]}


def gen_case(rng, params, index):
    kind = rng.weighted([(3, "cascade"), (3, "observers"), (2, "names"), (3, "literals"), (2, "operators"), (3, "facilities"), (3, "general"), (2, "actions"), (2, "returns")])
    if kind == "actions":
        return gen_actions_doc(rng.fork("actions"), rng.choice(qtcheck.TYPE_NAMES))
    if kind == "returns":
        return gen_returns_doc(rng.fork("returns"), rng.choice(qtcheck.TYPE_NAMES))
    tn = rng.choice(qtcheck.TYPE_NAMES)
    r2 = rng.fork("doc")
    if kind == "general":
        c = qtcheck.gen_doc_case(rng, "mixed", params["histories"], rng.randint(10, params["events"]))
        c["c16_kind"] = kind
        return _with_write_fault(c, rng)
    doc = {"cascade": gen.doc_cascade, "observers": gen.doc_observers, "names": gen.doc_names, "literals": gen.doc_literals,
           "operators": gen.doc_operators, "facilities": gen.doc_facilities}[kind](r2, tn)
    hists = []
    errs = []
    for k in range(params["histories"]):
        s = world.Scheduler(doc, rng.fork("hist", k), profile="bindings")
        try:
            il, io = s.initial()
            groups = s.history(rng.randint(10, params["events"]))
            hists.append({"init": {"lines": il, "ops": io}, "groups": groups})
        except Exception as e:
            errs.append("history %d: %s" % (k, e))
    return _with_write_fault(qtcheck.add_predecessor({"kind": "qtdoc", "c16_kind": kind, "profile": "bindings", "doc": doc, "histories": hists, "gen_errors": errs}, rng), rng)


def _with_write_fault(case, rng):
    r = rng.fork("wfault")
    if r.chance(0.3):
        case["wfault"] = [r.randint(0, 1 << 20), r.choice(["ENOSPC", "EIO", "EDQUOT", "SHORT_THEN_ENOSPC"]), r.randint(1, 4096)]
    return case


def run_case(case, env):
    stats = {"runs": 0, "sim_steps": {}, "faults_fired": {}, "probes": {}}
    probes = stats["probes"]
    qtcheck._bump(probes, "documents_of_kind_" + case.get("c16_kind", "?"))
    for e in case.get("gen_errors", []):
        qtcheck._bump(probes, "histories_dropped_at_generation")
        stats.setdefault("notes", []).append(e)
    if case.get("kind") == "actiondoc":
        viol, fps, sample = run_action_case(case, env, stats)
        if sample is not None:
            sample["kind"] = case.get("c16_kind")
        return {"violations": viol, "stats": stats, "fingerprints": fps, "sample": sample}
    viol, fps, sample = qtcheck.run_doc_case(case, env, "build", stats, syntax_compilers=SYNTAX)
    out = []
    for v in viol:
        if v["key"].startswith("c02:"):
            # only the string-denotation clause is C16's: a bound value that differs from the reference in a document
            # built to exercise literals (dependencies there are trivially static)
            if case.get("c16_kind") == "literals":
                v = dict(v, cls="literal", key="c16:string-literal-differs")
            else:
                qtcheck._bump(probes, "currency_differences_left_to_C02")
                continue
        out.append(v)
    if sample is not None:
        sample["kind"] = case.get("c16_kind")
    return {"violations": out, "stats": stats, "fingerprints": fps, "sample": sample}


def shrink(case, violation):
    if case.get("kind") == "actiondoc":
        # drop single lines of the document (object blocks of one line, bindings, handlers)
        lines = case["qml"].splitlines()
        for i in range(len(lines) - 1, 4, -1):
            if lines[i].strip() in ("}", "{") or lines[i].strip().startswith(("QVBoxLayout", "QAction {", "id:")):
                continue
            c = dict(case, qml="\n".join(lines[:i] + lines[i + 1:]) + "\n")
            yield c
        return
    for c in qtcheck.shrink_doc_case(case, violation):
        yield c


def describe():
    return {
        "rule": ("case = document built for this property: loop-free cascades of 20-40 objects (33-70 bindings, nesting depth up to 40, so that "
                 "binding indices on both sides of every 32-bit guard word are on the stack together); functions with 2-5 property observers in one "
                 "and in several blocks plus gadget sub-bindings; identifier sets whose capitalised concatenations coincide or look like numbered "
                 "names (foo.barBaz / fooBar.baz / foo.barBaz1 ...); string literals over ASCII, quotes, backslashes, whitespace escapes, control "
                 "characters, NUL followed by a digit, non-ASCII, combining characters, percent signs, trigraph-like text; operators printed "
                 "verbatim (% on doubles, Math.max/min with mixed operand kinds, ~ on flags, casts); and general documents of C02's generator. "
                 "Build step: g++ and clang++ -fsyntax-only in both QT_NO_DEBUG settings plus the sanitizer build. Runtime: histories as in C02 "
                 "with ASan+UBSan; no report, no spurious 'binding loop detected', literal-bearing bindings equal the source strings. 30% of the cases inject a failing or short write into the invocation that emits the header (failing runs are repeated, a run that exits 0 is taken at its word); every header must be whole before it is compiled; action documents (QAction children, static separators, actions list) are compile-only."),
        "fingerprint": "sha256 of document text; sha256 of (document, history lines)",
        "components": {
            "real": ["qmluic generate-ui release binary built from /repo working tree", "the emitted uisupport_*.h compiled unmodified by g++ 12 and clang++ 14 (-std=c++17)", "the emitted .ui"],
            "stub": ["declarations generated from the same type information handed to --foreign-types (simclasses.py)", "Qt runtime model (qtsim.h; qDebug lives in a separate <QtDebug>)", "stand-in uic"],
        },
        "assumptions": [
            "the compile clause is sampled over generated documents: it is input generation, stated plainly; only guard/observer capacity, index uniqueness and literal denotation are decided by simulation",
            "std::max/std::min are visible through almost any libstdc++ header (as through qglobal.h in real Qt), so a missing <algorithm> include cannot be observed; a missing <QtDebug> can",
            "C++ signal declarations of the synthetic classes have default arguments where the metatypes JSON has clones, as moc would produce",
        ],
    }

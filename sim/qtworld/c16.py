"""C16 — the support header is self-consistent, valid C++ over the documented Qt API.

Build step of every case (labelled as such, it is input generation, not a schedule property):
the header compiles as C++17 with g++ and clang++ in both QT_NO_DEBUG settings against
declarations generated from the same type information.  Runtime clauses decided by simulation:
guard/observer capacity and index uniqueness under nested delivery with sanitizers; string
literals denote the source strings.
"""
from ..cliworld.engine import V
from . import build, gen, qtcheck, world

ID = "C16"
LEVEL = "exploration"
ENGINE = "qtworld"

SYNTAX = (("g++", ()), ("g++", ("-DQT_NO_DEBUG",)), ("clang++-14", ("-DQT_NO_DEBUG",)))


def tier_params(tier):
    if tier == "thorough":
        return {"cases": 6000, "histories": 4, "events": 50, "wall_budget_s": 3300}
    return {"cases": 160, "histories": 2, "events": 30, "wall_budget_s": 900}


def prepare(repo):
    build.setup(repo)


def gen_case(rng, params, index):
    kind = rng.weighted([(3, "cascade"), (3, "observers"), (2, "names"), (3, "literals"), (2, "operators"), (3, "facilities"), (3, "general")])
    tn = rng.choice(qtcheck.TYPE_NAMES)
    r2 = rng.fork("doc")
    if kind == "general":
        c = qtcheck.gen_doc_case(rng, "mixed", params["histories"], rng.randint(10, params["events"]))
        c["c16_kind"] = kind
        return _with_write_fault(c, rng)
    doc = {"cascade": gen.doc_cascade, "observers": gen.doc_observers, "names": gen.doc_names, "literals": gen.doc_literals,
           "operators": gen.doc_operators, "facilities": gen.doc_facilities}[kind](r2, tn)
    hists = []
    errs = []
    for k in range(params["histories"]):
        s = world.Scheduler(doc, rng.fork("hist", k), profile="bindings")
        try:
            il, io = s.initial()
            groups = s.history(rng.randint(10, params["events"]))
            hists.append({"init": {"lines": il, "ops": io}, "groups": groups})
        except Exception as e:
            errs.append("history %d: %s" % (k, e))
    return _with_write_fault(qtcheck.add_predecessor({"kind": "qtdoc", "c16_kind": kind, "profile": "bindings", "doc": doc, "histories": hists, "gen_errors": errs}, rng), rng)


def _with_write_fault(case, rng):
    r = rng.fork("wfault")
    if r.chance(0.3):
        case["wfault"] = [r.randint(0, 1 << 20), r.choice(["ENOSPC", "EIO", "EDQUOT", "SHORT_THEN_ENOSPC"]), r.randint(1, 4096)]
    return case


def run_case(case, env):
    stats = {"runs": 0, "sim_steps": {}, "faults_fired": {}, "probes": {}}
    probes = stats["probes"]
    qtcheck._bump(probes, "documents_of_kind_" + case.get("c16_kind", "?"))
    for e in case.get("gen_errors", []):
        qtcheck._bump(probes, "histories_dropped_at_generation")
        stats.setdefault("notes", []).append(e)
    viol, fps, sample = qtcheck.run_doc_case(case, env, "build", stats, syntax_compilers=SYNTAX)
    out = []
    for v in viol:
        if v["key"].startswith("c02:"):
            # only the string-denotation clause is C16's: a bound value that differs from the reference in a document
            # built to exercise literals (dependencies there are trivially static)
            if case.get("c16_kind") == "literals":
                v = dict(v, cls="literal", key="c16:string-literal-differs")
            else:
                qtcheck._bump(probes, "currency_differences_left_to_C02")
                continue
        out.append(v)
    if sample is not None:
        sample["kind"] = case.get("c16_kind")
    return {"violations": out, "stats": stats, "fingerprints": fps, "sample": sample}


def shrink(case, violation):
    for c in qtcheck.shrink_doc_case(case, violation):
        yield c


def describe():
    return {
        "rule": ("case = document built for this property: loop-free cascades of 20-40 objects (33-70 bindings, nesting depth up to 40, so that "
                 "binding indices on both sides of every 32-bit guard word are on the stack together); functions with 2-5 property observers in one "
                 "and in several blocks plus gadget sub-bindings; identifier sets whose capitalised concatenations coincide or look like numbered "
                 "names (foo.barBaz / fooBar.baz / foo.barBaz1 ...); string literals over ASCII, quotes, backslashes, whitespace escapes, control "
                 "characters, NUL followed by a digit, non-ASCII, combining characters, percent signs, trigraph-like text; operators printed "
                 "verbatim (% on doubles, Math.max/min with mixed operand kinds, ~ on flags, casts); and general documents of C02's generator. "
                 "Build step: g++ and clang++ -fsyntax-only in both QT_NO_DEBUG settings plus the sanitizer build. Runtime: histories as in C02 "
                 "with ASan+UBSan; no report, no spurious 'binding loop detected', literal-bearing bindings equal the source strings."),
        "fingerprint": "sha256 of document text; sha256 of (document, history lines)",
        "components": {
            "real": ["qmluic generate-ui release binary built from /repo working tree", "the emitted uisupport_*.h compiled unmodified by g++ 12 and clang++ 14 (-std=c++17)", "the emitted .ui"],
            "stub": ["declarations generated from the same type information handed to --foreign-types (simclasses.py)", "Qt runtime model (qtsim.h; qDebug lives in a separate <QtDebug>)", "stand-in uic"],
        },
        "assumptions": [
            "the compile clause is sampled over generated documents: it is input generation, stated plainly; only guard/observer capacity, index uniqueness and literal denotation are decided by simulation",
            "std::max/std::min are visible through almost any libstdc++ header (as through qglobal.h in real Qt), so a missing <algorithm> include cannot be observed; a missing <QtDebug> can",
            "C++ signal declarations of the synthetic classes have default arguments where the metatypes JSON has clones, as moc would produce",
        ],
    }

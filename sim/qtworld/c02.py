"""C02 — dynamic bindings stay current when any property they read changes.

The real generated header, compiled unmodified against the runtime model, is driven through
seeded histories of changes, re-pointing, nulling, destruction and re-creation at the same
address; after every event, at quiescence, every bound target must equal the reference value
of its expression over the observed sources.  Rejection clause: a binding reading a
non-constant property without notify signal is refused with a diagnostic.
"""
from ..cliworld.engine import V
from . import build, gen, qtcheck

ID = "C02"
LEVEL = "exploration"
ENGINE = "qtworld"


def tier_params(tier):
    if tier == "thorough":
        return {"cases": 9000, "histories": 6, "events": 60, "wall_budget_s": 3300}
    return {"cases": 256, "histories": 4, "events": 40, "wall_budget_s": 900}


def prepare(repo):
    build.setup(repo)


REJECT_SHAPES = [
    ("direct", "out1: w2.silentVal + 1"),
    ("implicit-this", "out1: silentVal"),
    ("through-local", "out1: { let a = w2; return a.silentVal }"),
    ("through-chain", "out1: w2.peer.silentVal"),
    ("cross-block-local", "out1: { let a = w2; if (w2.flag) { a = w1 } return a.silentVal }"),
    ("under-condition", "out1: w2.flag ? w2.silentVal : 0"),
    ("in-gadget-member", "font.pointSize: w2.silentVal"),
    ("after-switch-with-breaks", "out1: { let a = 0; switch (w2.intVal) { case 1: a = 1; break; default: a = 2; break; } return a + w2.silentVal }"),
    ("after-switch-default-first", "out1: { let a = 0; switch (w2.intVal) { default: a = 2; break; case 1: a = 1; break; } return a + w2.silentVal }"),
    ("inside-switch-clause", "out1: { switch (w2.intVal) { case 1: return w2.silentVal; default: return 0; } }"),
    ("after-if-else", "out1: { let a = 0; if (w2.flag) { a = 1 } else { a = 2 } return a + w2.silentVal }"),
    ("in-else-branch", "out1: { if (w2.flag) { return 1 } else { return w2.silentVal } }"),
    ("after-early-return", "out1: { if (w2.flag) { return 1 } return w2.silentVal }"),
    ("link-without-notify", "out1: w2.silentPeer.intVal"),
    ("link-without-notify-guarded", "out1: w2.silentPeer != null ? w2.silentPeer.intVal : 0"),
    ("link-without-notify-second-hop", "out1: w2.peer.silentPeer.intVal"),
    ("link-without-notify-through-local", "out1: { let p = w2.silentPeer; return p.intVal }"),
    ("link-without-notify-as-value", "outPeer: w2.silentPeer"),
]
REAL_REJECT_SHAPES = [   # QAbstractButton.text, QLabel.text, QSpinBox.minimum have no notify signal in Qt 5
    ("real-button-text", "QLabel { id: r1; text: r2.text }\n        QPushButton { id: r2 }"),
    ("real-label-text-through-ternary", "QLineEdit { id: r1; placeholderText: r1.readOnly ? r2.text : \"k\" }\n        QLabel { id: r2 }"),
    ("real-spinbox-minimum", "QLabel { id: r1; indent: r2.minimum + 1 }\n        QSpinBox { id: r2 }"),
    ("real-checkable-in-condition", "QLabel { id: r1; wordWrap: r2.checkable && r2.checked }\n        QCheckBox { id: r2 }"),
]
ACCEPT_TWINS = [("const-link", "out1: w2.constPeer.intVal"), ("const-direct", "out1: w2.constVal + 1"), ("const-chain", "out1: w2.peer.constVal"), ("const-local", "out1: { let a = w2; return a.constVal }")]


def gen_case(rng, params, index):
    if rng.chance(0.03):
        kind, body = rng.choice(REAL_REJECT_SHAPES)
        qml = "import qmluic.QtWidgets\nQWidget {\n    id: root\n    QVBoxLayout {\n        %s\n    }\n}\n" % body
        return {"kind": "rejection", "shape": kind, "expect_reject": True, "qml": qml, "type_name": "Doc", "doc_first": rng.chance(0.5)}
    if rng.chance(0.1):
        kind, line = rng.choice(REJECT_SHAPES + ACCEPT_TWINS)
        qml = ("import qmluic.QtWidgets\nQWidget {\n    id: root\n    QVBoxLayout {\n        SimWidget {\n            id: w1\n            %s\n        }\n"
               "        SimWidget { id: w2; outFlag: w1.flag }\n    }\n}\n" % line)
        # valid handlers that raise a warning ('return type is ignored'), visited after the unobservable read: on the later
        # object (post-order walk) and sometimes on the same one (hash order)
        if rng.chance(0.6):
            qml = qml.replace("outFlag: w1.flag }", "outFlag: w1.flag; onFired: function(): void { w1.reset() } }")
        if rng.chance(0.3):
            qml = qml.replace("            id: w1\n", "            id: w1\n            onFired: function(): void { w2.reset() }\n", 1)
        return {"kind": "rejection", "shape": kind, "expect_reject": (kind, line) in REJECT_SHAPES, "qml": qml, "type_name": "Doc", "doc_first": rng.chance(0.5)}
    if rng.chance(0.15):
        # functions with 2-5 observers (one block and several blocks), chains of two hops: every observer slot must
        # survive re-pointing and death/re-creation of what it watches
        from . import world
        doc = gen.doc_observers(rng.fork("doc"), rng.choice(qtcheck.TYPE_NAMES))
        hists = []
        for k in range(params["histories"]):
            s = world.Scheduler(doc, rng.fork("hist", k), profile="bindings")
            il, io = s.initial()
            hists.append({"init": {"lines": il, "ops": io}, "groups": s.history(rng.randint(20, params["events"]))})
        return qtcheck.add_predecessor({"kind": "qtdoc", "profile": "bindings", "doc": doc, "histories": hists, "gen_errors": []}, rng)
    return qtcheck.gen_doc_case(rng, "bindings", params["histories"], rng.randint(max(8, params["events"] // 3), params["events"]))


def run_case(case, env):
    stats = {"runs": 0, "sim_steps": {}, "faults_fired": {}, "probes": {}}
    probes = stats["probes"]
    if case["kind"] == "rejection":
        wd = env.fresh_dir("qt")
        # a refused document is refused wherever it stands among the sources of the invocation
        tr = build.translate(env, case["qml"], case["type_name"], wd, doc_first=bool(case.get("doc_first")))
        stats["runs"] += 1
        viol = []
        if case["expect_reject"]:
            qtcheck._bump(probes, "unobservable_reads_planted")
            if tr["exit"] == 0 or tr["header"] is not None or tr["ui"] is not None:
                viol.append(V("rejection", "c02:unobservable-accepted", "a binding reading a non-constant property without notify signal (%s) was not refused: exit %s, outputs written: ui=%s header=%s\n%s"
                              % (case["shape"], tr["exit"], tr["ui"] is not None, tr["header"] is not None, case["qml"])))
            elif "unobservable property" not in tr["stderr"]:
                viol.append(V("rejection", "c02:unobservable-no-diagnostic", "refused (%s) but without an 'unobservable property' diagnostic:\n%s" % (case["shape"], tr["stderr"][-600:])))
        else:
            if tr["exit"] != 0:
                qtcheck._bump(probes, "constant_property_read_rejected")   # acceptance of valid programs is C05's statement
            else:
                qtcheck._bump(probes, "constant_property_reads_accepted")
        return {"violations": viol, "stats": stats, "fingerprints": ["reject|" + case["shape"]], "sample": {"document": case["qml"], "exit": tr["exit"]}}
    for e in case.get("gen_errors", []):
        qtcheck._bump(probes, "histories_dropped_at_generation")
    viol, fps, sample = qtcheck.run_doc_case(case, env, "bindings", stats)
    return {"violations": viol, "stats": stats, "fingerprints": fps, "sample": sample}


def shrink(case, violation):
    if case["kind"] != "qtdoc":
        return
    for c in qtcheck.shrink_doc_case(case, violation):
        yield c


def describe():
    return {
        "rule": ("case = generated document (3-7 SimWidget/SimPanel objects, some anonymous; 4-14 bindings over stratified layers whose "
                 "expressions vary in dependency structure: direct reads, implicit this, locals in the same block and across blocks, "
                 "pointer chains up to depth 3 through re-pointable peer/model/next/midPeer, null guards, reads under &&/||/?:/if/switch, "
                 "list subscripts, gadget members; plus handlers) x seeded histories of SET / SET_SAME / spurious and duplicate NOTIFY / "
                 "REPOINT / NULL / DESTROY(+CREATE at the same address) / CREATE / EMIT / ALWAYS_EMIT / BURST events; after each event every "
                 "bound target is compared with the reference value over the observed sources. 10% of cases plant an unobservable read "
                 "(7 shapes) or its CONSTANT twin. distinct_nontrivial counts distinct (document) and (document, history) pairs executed. Changes are biased to what the expressions read; sweep events change everything one expression reads, twice over, with an observation after every change. Most documents are translated over the outputs of an earlier version (fewer or more bindings, same .ui)."),
        "fingerprint": "sha256 of document text; sha256 of (document, history lines)",
        "components": {
            "real": ["qmluic generate-ui release binary built from /repo working tree", "the emitted uisupport_*.h, compiled unmodified (clang++ -std=c++17 -O0 -fsanitize=address,undefined)",
                     "the emitted .ui (read by the stand-in uic)", "contrib/metatypes/*.json"],
            "stub": ["Qt object/signal runtime (sim/qtworld/include/qtsim.h)", "widget classes generated from sim/qtworld/simclasses.py (the same description produces the metatypes JSON)",
                     "stand-in uic (sim/qtworld/uicsim.py)", "reference semantics (sim/qtworld/model.py)", "scheduler (orchestrator PRNG)"],
        },
        "assumptions": [
            "qtsim.h models Qt's connection semantics (synchronous depth-first delivery in connection order, handles invalidated by death of sender or context, setters emit only on change unless ALWAYS_EMIT)",
            "worlds are loop-free by stratification, so the reference fixed point is unique",
            "evaluation is kept defined (no overflow, non-zero constant divisors, guarded or pinned pointers); a bound pointer is only dereferenced under a null guard because setup() runs first updates in document order",
            "number of live connections is not an oracle (stale subscriptions are allowed by the code's own comment)",
        ],
    }

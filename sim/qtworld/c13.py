"""C13 — signal callbacks are wired to the right signal and do what the source says.

Generated handlers (expression / block / function forms with 0..n typed parameters; bodies with
writes, slot calls, console calls, let / if / switch / early return) run inside the live world:
their writes cascade into bindings.  Wiring is read from the connection table after setup();
effects of each emission are compared, element by element, with a reference interpreter.
"""
from ..cliworld.engine import V
from . import build, qtcheck

ID = "C13"
LEVEL = "exploration"
ENGINE = "qtworld"


def tier_params(tier):
    if tier == "thorough":
        return {"cases": 9000, "histories": 5, "events": 60, "wall_budget_s": 3300}
    return {"cases": 224, "histories": 3, "events": 40, "wall_budget_s": 900}


def prepare(repo):
    build.setup(repo)


REJECTS = [
    ("true-overload", "onPicked: console.log(1)"),
    ("true-overload-with-parameter", "onPicked: function(i: int) { console.log(i) }"),
    ("clone-plus-true-overload", "onMoved: console.log(1)"),
    ("clone-plus-true-overload-with-parameter", "onMoved: function(p: int) { console.log(p) }"),
    ("clone-plus-true-overload-at-second-argument", "onDialed: function(a: int) { console.log(a) }"),
    ("slot-is-not-a-signal", "onBump: console.log(1)"),
    ("property-is-not-a-signal", "onIntVal: console.log(1)"),
    ("unknown-signal", "onNoSuchThing: console.log(1)"),
    ("too-many-parameters", "onPoked: function(a: int, b: bool, c: int) { console.log(a) }"),
    ("too-many-parameters-0-arg-signal", "onFired: function(a: int) { console.log(a) }"),
    ("incompatible-parameter-type", "onPoked: function(a: QString) { console.log(a) }"),
    ("incompatible-second-parameter", "onPoked: function(a: int, b: QString) { console.log(a) }"),
    ("incompatible-parameter-type-renamed", "onRenamed: function(a: int) { console.log(a) }"),
    # numerically castable is not compatible: the lambda would receive a converted (wrapped, truncated) value
    ("castable-parameter-uint-for-int", "onPoked: function(a: uint) { console.log(a) }"),
    ("castable-parameter-double-for-int", "onPoked: function(a: double) { console.log(a) }"),
    ("castable-parameter-int-for-bool", "onPoked: function(a: int, b: int) { console.log(b) }"),
    ("castable-parameter-bool-for-int", "onTuned: function(a: bool) { console.log(a) }"),
    ("castable-parameter-int-for-enum-free-double", "onTuned: function(a: int, b: double) { console.log(b) }"),
]


REAL_REJECTS = [   # on real classes, with the overload sets of the working tree's metatypes
    ("real-true-overload-valueChanged", "QSpinBox", "onValueChanged: function(v: int) { console.log(v) }"),
    ("real-true-overload-valueChanged-double", "QDoubleSpinBox", "onValueChanged: console.log(1)"),
    ("real-too-many-parameters-clicked", "QPushButton", "onClicked: function(a: bool, b: bool) { console.log(a) }"),
    ("real-incompatible-parameter-toggled", "QCheckBox", "onToggled: function(a: QString) { console.log(a) }"),
    ("real-slot-is-not-a-signal", "QLineEdit", "onClear: console.log(1)"),
    ("real-too-many-parameters-returnPressed", "QLineEdit", "onReturnPressed: function(a: int) { console.log(a) }"),
    ("real-castable-parameter-uint-sliderMoved", "QSlider", "onSliderMoved: function(p: uint) { console.log(p) }"),
    ("real-castable-parameter-int-for-bool-clicked", "QPushButton", "onClicked: function(c: int) { console.log(c) }"),
]


def _with_warnings(rng, qml, line):
    """valid handlers that raise a *warning* ('return type is ignored'), visited after the refused one: on a later object
    (post-order walk) and, sometimes, on the same object (hash order)"""
    if rng.chance(0.6):
        qml = qml.replace("onFired: w1.reset() }", "onFired: function(): void { w1.reset() } }").replace("onFired: w2.reset() }", "onFired: function(): void { w2.reset() } }")
    if rng.chance(0.35) and "SimWidget {\n            id: w1" in qml:
        extra = "onTuned: function(a: int): void { w2.reset() }" if "onFired" in line else "onFired: function(): void { w2.reset() }"
        if extra.split(":")[0] not in line:
            qml = qml.replace("            id: w1\n", "            id: w1\n            %s\n" % extra, 1)
    return qml


def gen_case(rng, params, index):
    if rng.chance(0.12):
        if rng.chance(0.3):
            kind, cls, line = rng.choice(REAL_REJECTS)
            qml = ("import qmluic.QtWidgets\nQWidget {\n    id: root\n    QVBoxLayout {\n        %s {\n            id: r1\n            %s\n        }\n"
                   "        SimWidget { id: w2; onFired: w2.reset() }\n    }\n}\n" % (cls, line))
            return {"kind": "rejection", "shape": kind, "qml": _with_warnings(rng, qml, line), "type_name": "Doc", "doc_first": rng.chance(0.5)}
        kind, line = rng.choice(REJECTS)
        qml = ("import qmluic.QtWidgets\nQWidget {\n    id: root\n    QVBoxLayout {\n        SimWidget {\n            id: w1\n            %s\n        }\n"
               "        SimWidget { id: w2; onFired: w1.reset() }\n    }\n}\n" % line)
        return {"kind": "rejection", "shape": kind, "qml": _with_warnings(rng, qml, line), "type_name": "Doc", "doc_first": rng.chance(0.5)}
    return qtcheck.gen_doc_case(rng, "handlers", params["histories"], rng.randint(max(8, params["events"] // 3), params["events"]),
                                doc_kwargs={"handler_p": 0.85, "max_handlers": 3, "n_bindings": rng.randint(2, 9) if rng.chance(0.8) else 0})   # 0: a document with handlers only


def run_case(case, env):
    stats = {"runs": 0, "sim_steps": {}, "faults_fired": {}, "probes": {}}
    probes = stats["probes"]
    if case["kind"] == "rejection":
        wd = env.fresh_dir("qt")
        # a refused document is refused wherever it stands among the sources of the invocation
        tr = build.translate(env, case["qml"], case["type_name"], wd, doc_first=bool(case.get("doc_first")))
        stats["runs"] += 1
        viol = []
        qtcheck._bump(probes, "invalid_handlers_planted")
        if tr["exit"] == 0 or tr["header"] is not None or tr["ui"] is not None:
            viol.append(V("rejection", "c13:invalid-handler-accepted", "handler that must be rejected (%s) was accepted: exit %s, ui=%s header=%s\n%s"
                          % (case["shape"], tr["exit"], tr["ui"] is not None, tr["header"] is not None, case["qml"])))
        elif not [l for l in tr["stderr"].splitlines() if l.startswith("error")]:
            viol.append(V("rejection", "c13:rejected-without-diagnostic", "exit %s without an error diagnostic:\n%s" % (tr["exit"], tr["stderr"][-400:])))
        return {"violations": viol, "stats": stats, "fingerprints": ["reject|" + case["shape"]], "sample": {"document": case["qml"], "exit": tr["exit"]}}
    for e in case.get("gen_errors", []):
        qtcheck._bump(probes, "histories_dropped_at_generation")
    viol, fps, sample = qtcheck.run_doc_case(case, env, "handlers", stats)
    return {"violations": viol, "stats": stats, "fingerprints": fps, "sample": sample}


def shrink(case, violation):
    if case["kind"] != "qtdoc":
        return
    for c in qtcheck.shrink_doc_case(case, violation):
        yield c


def describe():
    return {
        "rule": ("case = generated document with handlers on most objects (signals with default-argument clones poked(int=0,bool=false) and "
                 "renamed(QString,int=1), zero-argument fired(), inherited raised(int) on SimPanel, QDialog accepted/rejected/finished(int); "
                 "expression, block and function forms with 0..n declared parameters; 1-5 statements incl. writes to sources, slot calls "
                 "with arguments, console.log/debug/info/warn/error with mixed arguments, let, if/else, switch with fall-through, early "
                 "return) x seeded histories dominated by EMIT (with generated arguments) and EMIT_OTHER (other object, other signal, true "
                 "overloads picked(int)/picked(QString)), interleaved with SET/REPOINT/DESTROY events. Oracles: exactly one live connection per "
                 "handler on the most-arguments C++ signal; handler-channel effect trace (calls, logs, writes to non-target properties) equal "
                 "to the reference interpreter's, element by element; other emissions leave no handler-channel effects; state of non-target "
                 "properties equal afterwards. 10% of cases plant one of 10 invalid handlers that must be rejected. Handler literals include control characters before hex/octal digits; read-write-read sequences are built from the document's own bindings; 20% of the documents have handlers only; translation over an earlier version as in C02."),
        "fingerprint": "sha256 of document text; sha256 of (document, history lines)",
        "components": {
            "real": ["qmluic generate-ui release binary built from /repo working tree", "the emitted uisupport_*.h compiled unmodified", "the emitted .ui", "contrib/metatypes/*.json"],
            "stub": ["Qt object/signal runtime (qtsim.h)", "widget classes and the C++ truth about signal clones (simclasses.py)", "stand-in uic", "reference interpreter (model.py)", "scheduler"],
        },
        "assumptions": [
            "the context object of a connection is not stated by the property and is not checked",
            "writes to binding targets are compared as state at quiescence, not as trace (their order may legally glitch)",
            "each emission is judged from the previously observed state, so an earlier divergence cannot cause a later alarm",
        ],
    }

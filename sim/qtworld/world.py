"""Scheduler and oracles of World B.

The scheduler alone decides the next event.  It drives a reference `model.World` while it
generates a history, so every event is legal in the state it is applied to (pins respected,
objects unlinked before they die).  At run time the same operations are replayed through the
model to obtain the expected state after each event and the expected handler traces.
"""
import copy

from . import gen, model, simclasses as sc

ANON = "@a%d"


def doc_object_names(doc):
    """generation-time names: ids, or placeholders for anonymous objects"""
    names = []
    k = 0
    for o in doc["objects"]:
        if o.get("id"):
            names.append(o["id"])
        else:
            names.append(ANON % k)
            k += 1
    return names


def build_world(doc, names=None):
    """reference world for a document; `names` = actual object names in document order"""
    names = names or doc_object_names(doc)
    w = model.World()
    w.tr_context = doc["type_name"]
    root = doc["root"]
    w.add_object(root["id"], root["cls"])
    for o, n in zip(doc["objects"], names):
        w.add_object(n, o["cls"])
    owners = [(root, root["id"])] + list(zip(doc["objects"], names))
    for layer in (1, 2):
        for o, n in owners:
            for b in o["bindings"]:
                if b["layer"] == layer:
                    w.bindings.append({"obj": n, "target": b["target"], "sub": b.get("sub"), "body": b["body"], "layer": layer})
    for o, n in owners:
        for h in o["handlers"]:
            w.handlers[(n, h["sigkey"])] = h
    return w


def apply_consts(w, doc, names=None):
    """predicted state after setupUi: defaults plus the constant bindings of the document"""
    names = names or doc_object_names(doc)
    for o, n in [(doc["root"], doc["root"]["id"])] + list(zip(doc["objects"], names)):
        for p, e in o["consts"]:
            v = w.ev(e, {"this": n, "locals": [{}]})
            if "." in p:
                a, b = p.split(".", 1)
                w.props[n][a] = dict(w.props[n][a], **{b: v})
            else:
                w.props[n][p] = v


def prop_type(cls, prop):
    if cls in model.BUILTIN_PROPS and prop in model.BUILTIN_PROPS[cls]:
        v = model.BUILTIN_PROPS[cls][prop]
        return "bool" if isinstance(v, bool) else ("int" if isinstance(v, int) else "string")
    p = sc.find_prop(cls, prop)
    if p is None:
        v = model.BUILTIN_PROPS["QWidget"].get(prop)
        return "bool" if isinstance(v, bool) else ("int" if isinstance(v, int) else "string")
    return gen.TY_OF[p["type"]]


def is_sim(cls):
    return cls in sc.BY_NAME


def sources_of(cls):
    """[(prop, ty)] layer-0 properties of a class"""
    if not is_sim(cls):
        return []
    return [(p["name"], gen.TY_OF[p["type"]]) for p in sc.all_props(cls) if p["layer"] == 0]


def notify_key(cls, prop):
    p = sc.find_prop(cls, prop)
    return "%s(%s)" % (p["notify"][0], ",".join(p["notify"][1]))


class Scheduler:
    def __init__(self, doc, rng, profile="mixed"):
        self.doc = doc
        self.r = rng
        self.profile = profile
        self.w = build_world(doc)
        apply_consts(self.w, doc)
        self.pins = set(tuple(p) for p in doc["pins"])
        self.ext = []          # live external object names
        self.graves = []       # destroyed externals whose storage can be reused: (name, cls)
        self.counter = {"m": 0, "x": 0}
        self.strctr = 0
        self.always = {}
        self.last_unlinked = []
        # what the document's expressions read: (object id or None when reached through a pointer, property).  Changes are
        # biased towards these - a change of something nothing reads exercises nothing
        self.hot = []
        bodies = []

        def walk(x, objs, props):
            if isinstance(x, dict):
                for v in x.values():
                    walk(v, objs, props)
            elif isinstance(x, list):
                if len(x) == 3 and x[0] == "prop" and isinstance(x[2], str):
                    props.add(x[2])
                if len(x) == 2 and x[0] == "obj" and isinstance(x[1], str):
                    objs.add(x[1])
                for v in x:
                    walk(v, objs, props)
        for o in [doc["root"]] + doc["objects"]:
            for body in o["bindings"] + o["handlers"]:
                objs, props = set(), set()
                walk(body, objs, props)
                # every named object of one body with every property read in it (a local may carry any of them to any
                # read), and every such property on whatever object a pointer leads to
                pairs = [(i, p) for i in sorted(objs) for p in sorted(props)] + [(None, p) for p in sorted(props)]
                self.hot += pairs
                if pairs:
                    bodies.append(pairs)
        self.hot = sorted(set(self.hot), key=lambda t: (t[0] or "", t[1]))
        # each history dwells on one expression: half of the biased changes go to what that one reads
        self.focus = self.r.choice(bodies) if bodies else []
        self.bodies = bodies

    # ---------------------------------------------------------------- helpers
    def pinned(self, obj, prop):
        return (obj, prop) in self.pins or ("*", prop) in self.pins

    def live(self, base):
        """live objects usable as target of a pointer of class `base`"""
        return sorted(n for n, c in self.w.cls.items() if is_sim(c) and sc.is_subclass(c, base))

    def ptr_props(self, obj):
        return [(p, t) for p, t in sources_of(self.w.cls[obj]) if t in ("pw", "pm")]

    def value(self, ty, cur=None):
        r = self.r
        for _ in range(20):
            if ty == "int":
                v = r.choice(gen.INT_VALUES)
            elif ty == "uint":
                v = r.randint(0, 50)
            elif ty == "double":
                v = r.choice(gen.REAL_VALUES)
            elif ty == "bool":
                v = (not cur) if isinstance(cur, bool) else r.chance(0.5)
            elif ty == "string":
                self.strctr += 1
                v = r.choice(["", "alpha", "m", "q%d" % self.strctr, "é%d" % self.strctr, "s %d" % self.strctr])
            elif ty == "mode":
                v = r.randint(0, 2)
            elif ty == "opts":
                v = r.randint(0, 7)
            elif ty == "strlist":
                v = tuple("i%d" % r.randint(0, 9) for _ in range(r.randint(0, 3)))
            elif ty == "font":
                v = dict(model.FONT_DEFAULT, family=r.choice(["Sans", "Serif", "Mono", ""]), pointSize=r.randint(6, 30), bold=r.chance(0.5))
            else:
                raise ValueError(ty)
            if v != cur:
                return v
        return v

    def set_ops(self, obj, prop, ty, v):
        t = gen.tok(v, ty)
        self.w.set_source(obj, prop, v)
        return ["SET %s %s %s" % (obj, prop, t)], [["set", obj, prop, t]]

    def init_object(self, name, full=True):
        """random source values for an object, pointers satisfying the pins"""
        lines, ops = [], []
        for p, ty in sources_of(self.w.cls[name]):
            if ty in ("pw", "pm"):
                base = "SimWidget" if ty == "pw" else "SimModel"
                cands = self.live(base)
                must = self.pinned(name, p)
                if cands and (must or self.r.chance(0.6)):
                    l, o = self.set_ops(name, p, ty, self.r.choice(cands))
                    lines += l
                    ops += o
                elif must:
                    raise RuntimeError("no target for pinned pointer %s.%s" % (name, p))
            elif full and self.r.chance(0.7):
                l, o = self.set_ops(name, p, ty, self.value(ty, self.w.props[name][p]))
                lines += l
                ops += o
        return lines, ops

    def new_external(self, cls, reuse=None):
        k = "m" if cls == "SimModel" else "x"
        self.counter[k] += 1
        name = "%s%d" % (k, self.counter[k])
        self.w.add_object(name, cls)
        self.ext.append(name)
        if reuse:
            return name, ["REUSE %s %s %s" % (reuse, cls, name)], [["new", name, cls]]
        return name, ["NEW %s %s" % (name, cls)], [["new", name, cls]]

    # ---------------------------------------------------------------- initial part
    def initial(self):
        """events applied between CONSTRUCT and SETUP"""
        lines, ops = [], []
        for e in self.doc["externals"]:
            n, l, o = self.new_external(e["cls"])
            lines += l
            ops += o
        # pointers first need all objects to exist; models' `next` may point to themselves
        order = sorted(self.w.cls, key=lambda n: (0 if self.w.cls[n] == "SimModel" else 1, n))
        for n in order:
            if is_sim(self.w.cls[n]):
                l, o = self.init_object(n)
                lines += l
                ops += o
        # cooperative fault point: a seeded subset of properties whose setters always emit
        for p in ("intVal", "text", "flag", "peer", "model", "count", "title", "mid1", "midText", "midPeer"):
            if self.r.chance(0.15):
                self.always[p] = True
                self.w.always[p] = True
                lines.append("ALWAYS %s 1" % p)
                ops.append(["always", p, True])
        # setup(): bindings become live
        self.w.active = True
        self.w.recompute()
        return lines, ops

    # ---------------------------------------------------------------- events
    def objects_with_sources(self):
        return sorted(n for n, c in self.w.cls.items() if sources_of(c))

    def ev_set(self):
        if self.hot and self.r.chance(0.6):
            ho, hp = self.r.choice(self.focus if (self.focus and self.r.chance(0.5)) else self.hot)
            owners = [n for n in self.objects_with_sources() if any(p == hp and t not in ("pw", "pm") for p, t in sources_of(self.w.cls[n]))]
            if owners:
                o = ho if (ho in owners and self.r.chance(0.7)) else self.r.choice(owners)
                ty = [t for p, t in sources_of(self.w.cls[o]) if p == hp][0]
                l, ops = self.set_ops(o, hp, ty, self.value(ty, self.w.props[o][hp]))
                return "SET", l, ops
        o = self.r.choice(self.objects_with_sources())
        cands = [(p, t) for p, t in sources_of(self.w.cls[o]) if t not in ("pw", "pm")]
        p, ty = self.r.choice(cands)
        l, ops = self.set_ops(o, p, ty, self.value(ty, self.w.props[o][p]))
        return "SET", l, ops

    def ev_sweep(self):
        """two passes over everything one expression reads, on the objects it names: each is changed once per pass, in
        random order, with an observation after every single change (conditions flip somewhere in between, so most reads
        are changed under both outcomes)"""
        if not self.bodies:
            return None
        pairs = list(self.r.choice(self.bodies))
        groups = []
        for _ in range(2):
            self.r.shuffle(pairs)
            for ho, hp in pairs[:8]:
                owners = [n for n in self.objects_with_sources() if any(p == hp and t not in ("pw", "pm") for p, t in sources_of(self.w.cls[n]))]
                if not owners:
                    continue
                o = ho if ho in owners else self.r.choice(owners)
                ty = [t for p, t in sources_of(self.w.cls[o]) if p == hp][0]
                l, ops = self.set_ops(o, hp, ty, self.value(ty, self.w.props[o][hp]))
                groups.append({"kind": "SET", "lines": l, "ops": ops, "sweep": True})
        return groups

    def ev_set_same(self):
        o = self.r.choice(self.objects_with_sources())
        p, ty = self.r.choice(sources_of(self.w.cls[o]))
        l, ops = self.set_ops(o, p, ty, self.w.props[o][p])
        return "SET_SAME", l, ops

    def ev_notify(self):
        o = self.r.choice(self.objects_with_sources())
        p, ty = self.r.choice(sources_of(self.w.cls[o]))
        cls = self.w.cls[o]
        pd = sc.find_prop(cls, p)
        key = notify_key(cls, p)
        args = [gen.tok(self.w.props[o][p], ty)] if pd["notify"][1] else []
        line = ("EMIT %s %s %s" % (o, key, " ".join(args))).rstrip()
        lines = [line]
        ops = [["emit", o, key, args]]
        self.w.emit(o, key, [gen.untok(a) for a in args])     # a handler on the notify signal runs
        if self.r.chance(0.3):
            lines.append(line)   # duplicate notification
            ops.append(["emit", o, key, args])
            self.w.emit(o, key, [gen.untok(a) for a in args])
        if p == "text" and cls in ("SimWidget", "SimPanel") and self.r.chance(0.5):
            lines.append("EMIT %s textChanged()" % o)
            ops.append(["emit", o, "textChanged()", []])
        return "NOTIFY_SPURIOUS", lines, ops

    def ev_repoint(self):
        cands = [(o, p, t) for o in self.objects_with_sources() for p, t in self.ptr_props(o)]
        if not cands:
            return None
        o, p, t = self.r.choice(cands)
        targets = [x for x in self.live("SimWidget" if t == "pw" else "SimModel") if x != self.w.props[o][p]]
        if not targets:
            return None
        l, ops = self.set_ops(o, p, t, self.r.choice(targets))
        return "REPOINT", l, ops

    def ev_null(self):
        cands = [(o, p, t) for o in self.objects_with_sources() for p, t in self.ptr_props(o)
                 if self.w.props[o][p] is not None and not self.pinned(o, p)]
        if not cands:
            return None
        o, p, t = self.r.choice(cands)
        l, ops = self.set_ops(o, p, t, None)
        return "NULL", l, ops

    def unlink(self, victim):
        """re-point every pointer to `victim`; None if impossible under the pins"""
        lines, ops = [], []
        vc = self.w.cls[victim]
        base = "SimModel" if vc == "SimModel" else "SimWidget"
        others = [x for x in self.live(base) if x != victim]
        plan = []
        self.last_unlinked = []
        for o in self.objects_with_sources():
            for p, t in self.ptr_props(o):
                if self.w.props[o][p] == victim:
                    if o == victim:
                        continue
                    self.last_unlinked.append((o, p))
                    if others and (self.pinned(o, p) or self.r.chance(0.6)):
                        plan.append((o, p, t, self.r.choice(others)))
                    elif not self.pinned(o, p):
                        plan.append((o, p, t, None))
                    else:
                        return None
        for o, p, t, tgt in plan:
            l, op = self.set_ops(o, p, t, tgt)
            lines += l
            ops += op
        return lines, ops

    def ev_aba(self):
        """scripted schedule for the case the generated code's own comment worries about: while the conditions are
        switched one way (so observe statements on the other paths do not run) an observed external object dies, a new
        one is constructed at its address and linked back where the old one was; then the conditions flip and the
        newcomer changes.  Returns several groups, each followed by an observation."""
        cands = [x for x in self.ext if any(self.w.props[o][p] == x for o in self.objects_with_sources() for p, t in self.ptr_props(o) if o != x)]
        if not cands:
            return None
        victim = self.r.choice(cands)
        pol = self.r.chance(0.5)
        groups = []

        def flags(v, kind):
            lines, ops = [], []
            for o in self.objects_with_sources():
                if "flag" in self.w.props[o] and o in self.w.cls and self.w.cls[o] in ("SimWidget", "SimPanel") and self.w.props[o]["flag"] != v:
                    l, op = self.set_ops(o, "flag", "bool", v)
                    lines += l
                    ops += op
            if lines:
                groups.append({"kind": kind, "sub": ["SET"], "lines": lines, "ops": ops})
        flags(pol, "BURST")
        e = self.ev_destroy(victim=victim, force_reuse=True)
        if e is None:
            return groups or None
        groups.append({"kind": e[0], "lines": e[1], "ops": e[2]})
        flags(not pol, "BURST")
        newcomer = self.ext[-1] if self.ext else None
        if newcomer and e[0] == "DESTROY+CREATE_REUSE":
            cls = self.w.cls[newcomer]
            for p, ty in [(p, t) for p, t in sources_of(cls) if t not in ("pw", "pm")][:3]:
                l, op = self.set_ops(newcomer, p, ty, self.value(ty, self.w.props[newcomer][p]))
                groups.append({"kind": "SET", "lines": l, "ops": op})
        return groups

    def ev_destroy(self, victim=None, force_reuse=False):
        if not self.ext:
            return None
        victim = victim or self.r.choice(self.ext)
        cls = self.w.cls[victim]
        # bound pointers (midPeer/outPeer) derive from sources, and sources never keep a dangling pointer;
        # but a bound pointer could legitimately still name the victim through a *named* constant only - externals are never named
        u = self.unlink(victim)
        if u is None:
            return None
        lines, ops = u
        # after unlinking, no bound pointer may still denote the victim
        for b in self.w.bindings:
            if self.w.props[b["obj"]][b["target"]] == victim:
                return ("PARTIAL", lines, ops)
        lines.append("DESTROY %s" % victim)
        ops.append(["destroy", victim])
        self.w.remove_object(victim)
        self.ext.remove(victim)
        kind = "DESTROY"
        if force_reuse or self.r.chance(0.65):
            # a new object at the same address (the ABA case), then linked in
            n, l, o = self.new_external(cls, reuse=victim)
            lines += l
            ops += o
            l, o = self.init_object(n)
            lines += l
            ops += o
            kind = "DESTROY+CREATE_REUSE"
            # mostly put the newcomer back where the dead object was referenced: the pointer value returns to the
            # same address while an observer that did not run in between still records it (the ABA case)
            l, o = self.link_in(n, prefer=self.last_unlinked if (force_reuse or self.r.chance(0.8)) else None)
            lines += l
            ops += o
        else:
            self.graves.append((victim, cls))
        return kind, lines, ops

    def link_in(self, n, prefer=None):
        lines, ops = [], []
        cls = self.w.cls[n]
        t = "pm" if cls == "SimModel" else "pw"
        cands = [(o, p) for o in self.objects_with_sources() for p, pt in self.ptr_props(o) if pt == t and o != n]
        self.r.shuffle(cands)
        chosen = cands[:self.r.randint(1, 2)]
        if prefer:
            back = [(o, p) for o, p in prefer if o in self.w.cls and (o, p) in cands]
            if back:
                chosen = back
        for o, p in chosen:
            l, op = self.set_ops(o, p, t, n)
            lines += l
            ops += op
        return lines, ops

    def ev_new(self):
        if len(self.ext) >= 6:
            return None
        cls = self.r.choice(["SimModel", "SimWidget", "SimPanel"])
        reuse = None
        fit = [g for g in self.graves if g[1] == cls]
        if fit and self.r.chance(0.7):
            reuse = fit[0][0]
            self.graves.remove(fit[0])
        n, lines, ops = self.new_external(cls, reuse=reuse)
        l, o = self.init_object(n)
        lines += l
        ops += o
        l, o = self.link_in(n)
        lines += l
        ops += o
        return ("CREATE_REUSE" if reuse else "CREATE_FRESH"), lines, ops

    def sig_args(self, argtypes):
        out = []
        for t in argtypes:
            ty = {"int": "int", "bool": "bool", "QString": "string", "string": "string"}.get(t, t)
            out.append(gen.tok(self.value(ty), ty))
        return out

    def ev_emit(self):
        hs = sorted(self.w.handlers)
        if not hs:
            return None
        o, key = self.r.choice(hs)
        h = self.w.handlers[(o, key)]
        args = self.sig_args(h["argtypes"])
        vals = [gen.untok(a) for a in args]
        self.w.emit(o, key, vals)
        return "EMIT", ["EMIT %s %s %s" % (o, key, " ".join(args))], [["emit", o, key, args]]

    def ev_emit_other(self):
        """a signal that has no handler on that object: other object of the class, other overload, other signal"""
        cands = []
        for n, c in sorted(self.w.cls.items()):
            if c not in ("SimWidget", "SimPanel"):
                continue
            for key, ats in (("poked(int,bool)", ["int", "bool"]), ("fired()", []), ("tuned(int,int,bool)", ["int", "int", "bool"]), ("renamed(QString,int)", ["QString", "int"]),
                             ("picked(int)", ["int"]), ("picked(QString)", ["QString"]), ("moved(int)", ["int"]), ("moved(QString)", ["QString"]),
                             ("dialed(int,int)", ["int", "int"]), ("dialed(int,QString)", ["int", "QString"])):
                if (n, key) not in self.w.handlers:
                    cands.append((n, key, ats))
            if c == "SimPanel" and (n, "raised(int)") not in self.w.handlers:
                cands.append((n, "raised(int)", ["int"]))
        if not cands:
            return None
        n, key, ats = self.r.choice(cands)
        args = self.sig_args(ats)
        return "EMIT_OTHER", ["EMIT %s %s %s" % (n, key, " ".join(args))], [["emit", n, key, args]]

    def ev_always(self):
        p = self.r.choice(["intVal", "text", "flag", "peer", "model", "count", "title", "mid1", "midText", "midPeer", "uintVal", "items"])
        on = not self.always.get(p, False)
        self.always[p] = on
        self.w.always[p] = on
        return "ALWAYS_EMIT", ["ALWAYS %s %d" % (p, 1 if on else 0)], [["always", p, on]]

    def history(self, n_events):
        """-> list of groups {"kind", "lines", "ops"}; one observation follows each group"""
        weights = {"mixed": [(20, "set"), (6, "same"), (8, "notify"), (14, "repoint"), (6, "null"), (7, "destroy"), (5, "new"), (14, "emit"), (5, "other"), (3, "always"), (8, "burst"), (2, "aba"), (5, "sweep")],
                   "bindings": [(24, "set"), (6, "same"), (8, "notify"), (18, "repoint"), (8, "null"), (9, "destroy"), (6, "new"), (6, "emit"), (2, "other"), (3, "always"), (10, "burst"), (4, "aba"), (8, "sweep")],
                   "handlers": [(12, "set"), (3, "same"), (4, "notify"), (8, "repoint"), (3, "null"), (3, "destroy"), (2, "new"), (40, "emit"), (14, "other"), (3, "always"), (6, "burst"), (3, "sweep")]}[self.profile]
        groups = []
        fns = {"set": self.ev_set, "same": self.ev_set_same, "notify": self.ev_notify, "repoint": self.ev_repoint, "null": self.ev_null,
               "destroy": self.ev_destroy, "new": self.ev_new, "emit": self.ev_emit, "other": self.ev_emit_other, "always": self.ev_always}
        guard = 0
        while len(groups) < n_events and guard < n_events * 10:
            guard += 1
            k = self.r.weighted(weights)
            if k == "aba":
                gs = self.ev_aba()
                if gs:
                    groups += gs
                    groups[-1]["aba"] = True
                continue
            if k == "sweep":
                gs = self.ev_sweep()
                if gs:
                    groups += gs
                continue
            if k == "burst":
                lines, ops, kinds = [], [], []
                for _ in range(self.r.randint(2, 5)):
                    e = fns[self.r.choice(["set", "set", "repoint", "notify", "null", "same"])]()
                    if e:
                        kinds.append(e[0])
                        lines += e[1]
                        ops += e[2]
                if lines:
                    groups.append({"kind": "BURST", "sub": kinds, "lines": lines, "ops": ops})
                continue
            e = fns[k]()
            if e is None:
                continue
            groups.append({"kind": e[0], "lines": e[1], "ops": e[2]})
        return groups


# ---------------------------------------------------------------- run-time side

def substitute(text, mapping):
    for k, v in mapping.items():
        text = text.replace(k, v)
    return text


def history_lines(init, groups, mapping):
    L = ["CONSTRUCT", "MARK construct", "OBSERVE"]
    L += [substitute(x, mapping) for x in init["lines"]]
    L += ["SETUP", "MARK setup", "OBSERVE"]
    for i, g in enumerate(groups):
        L += [substitute(x, mapping) for x in g["lines"]]
        L += ["MARK %d" % i, "OBSERVE"]
    return L


def apply_op(w, op, mapping):
    """-> expected trace of the op (only emit ops produce one)"""
    k = op[0]
    if k == "set":
        o = mapping.get(op[1], op[1])
        v = gen.untok(op[3])
        if isinstance(v, str) and op[3].startswith("o:"):
            v = mapping.get(v, v)
        w.set_source(o, op[2], v)
        return w.trace
    if k == "always":
        w.always[op[1]] = bool(op[2])
        return w.trace
    if k == "new":
        w.add_object(op[1], op[2])
        return []
    if k == "destroy":
        w.remove_object(op[1])
        return []
    if k == "emit":
        o = mapping.get(op[1], op[1])
        return w.emit(o, op[2], [gen.untok(a) for a in op[3]])
    if k == "noop":
        return []
    raise ValueError(k)


def trace_line(w, entry):
    """model trace entry -> driver trace line"""
    k = entry[0]
    if k == "set":
        _, o, p, v = entry
        return "set %s %s %s" % (o, p, gen.tok(v, prop_type(w.cls[o], p)))
    if k == "call":
        _, o, m, args = entry
        toks = []
        for a in args:
            toks.append(value_token(a))
        return "call %s %s%s" % (o, m, "".join(" " + t for t in toks))
    if k == "log":
        _, level, args = entry
        return "log %s%s" % (level, "".join(" " + value_token(a) for a in args))
    if k == "tr":
        return "tr %s %s" % (entry[1].encode("utf-8").hex(), entry[2].encode("utf-8").hex())
    raise ValueError(k)


def value_token(a):
    if isinstance(a, bool):
        return gen.tok(a, "bool")
    if isinstance(a, int):
        return gen.tok(a, "int")
    if isinstance(a, float):
        return gen.tok(a, "double")
    if isinstance(a, str):
        return gen.tok(a, "string")
    if isinstance(a, tuple):
        return gen.tok(a, "strlist")
    if isinstance(a, dict):
        return gen.tok(a, "font")
    raise ValueError(repr(a))


def values_equal(a, b):
    if isinstance(a, float) or isinstance(b, float):
        try:
            return float(a) == float(b)
        except (TypeError, ValueError):
            return False
    if isinstance(a, (list, tuple)) and isinstance(b, (list, tuple)):
        return tuple(a) == tuple(b)
    return a == b


def canon_line(ln):
    """one canonical spelling per value (doubles are printed %.17g by the driver, repr() by Python)"""
    parts = ln.split(" ")
    out = []
    for x in parts:
        if x.startswith("d:"):
            try:
                x = "d:%r" % float(x[2:])
            except ValueError:
                pass
        out.append(x)
    return " ".join(out)


def handler_channel(lines, target_set):
    """sub-sequence of a trace on handler channels: calls, logs and writes to properties that are
    not binding targets (translate calls come from bindings in these worlds and are dropped)"""
    out = []
    for ln in lines:
        parts = ln.split(" ")
        if parts[0] == "set":
            if (parts[1], parts[2]) in target_set:
                continue
            out.append(canon_line(ln))
        elif parts[0] in ("call", "log"):
            out.append(canon_line(ln))
    return out


def apply_group(w, ops, mapping):
    """replay one event group through the reference world -> its complete expected trace"""
    w.trace = []
    for op in ops:
        apply_op(w, op, mapping)
    return list(w.trace)

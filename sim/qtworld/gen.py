"""Generator of World-B documents: object trees over the synthetic classes with bindings whose
*dependency structure* varies (direct, through locals, through re-pointable pointer chains,
under conditions, through lists), plus signal handlers.  ASTs are JSON lists; `render_*` turns
them into QML text; model.py evaluates the same ASTs.

Stratification (no binding loops in any reachable state): layer 0 = sources (never bound),
layer 1 = bound, readable by layer 2, layer 2 = sinks.  A binding whose target is in layer n
reads only layers < n, of any object.
"""
from . import simclasses as sc

WORDS = ["alpha", "beta", "gamma", "delta", "eps", "zeta", "eta", "theta"]


def tok(v, ty):
    """value -> driver token"""
    if ty in ("int", "mode", "opts"):
        return "i:%d" % v
    if ty == "uint":
        return "u:%d" % v
    if ty == "double":
        return "d:%r" % float(v)
    if ty == "bool":
        return "b:%d" % (1 if v else 0)
    if ty == "string":
        return "s:" + v.encode("utf-8").hex()
    if ty == "strlist":
        return "l0" if not v else "l:" + ",".join(x.encode("utf-8").hex() for x in v)
    if ty in ("pw", "pm"):
        return "o:" + (v if v is not None else "null")
    if ty == "font":
        return "f:%s,%d,%d,%d%d%d%d%d" % (v["family"].encode("utf-8").hex(), v["pointSize"], v["weight"], v["italic"], v["bold"], v["underline"], v["strikeOut"], v["kerning"])
    raise ValueError(ty)


def untok(t):
    if t == "l0":
        return ()
    k, body = t[0], t[2:]
    if k in "iu":
        return int(body)
    if k == "d":
        return float(body)
    if k == "b":
        return body != "0"
    if k == "s":
        return bytes.fromhex(body).decode("utf-8", "replace")
    if k == "l":
        return tuple(bytes.fromhex(x).decode("utf-8", "replace") for x in body.split(","))
    if k == "o":
        return None if body == "null" else body
    if k == "f":
        fam, ps, wt, bits = body.split(",")
        return {"family": bytes.fromhex(fam).decode("utf-8", "replace"), "pointSize": int(ps), "weight": int(wt), "italic": bits[0] == "1",
                "bold": bits[1] == "1", "underline": bits[2] == "1", "strikeOut": bits[3] == "1", "kerning": bits[4] == "1"}
    raise ValueError(t)


TY_OF = {"int": "int", "uint": "uint", "double": "double", "bool": "bool", "QString": "string", "QStringList": "strlist",
         "SimWidget::Mode": "mode", "SimWidget::Options": "opts", "SimWidget*": "pw", "SimModel*": "pm", "QFont": "font"}


def jsstr(s):
    out = ['"']
    for ch in s:
        o = ord(ch)
        if ch == '"':
            out.append('\\"')
        elif ch == "\\":
            out.append("\\\\")
        elif ch == "\n":
            out.append("\\n")
        elif ch == "\t":
            out.append("\\t")
        elif ch == "\r":
            out.append("\\r")
        elif o < 0x20 or o == 0x7f:
            out.append("\\u%04x" % o)
        else:
            out.append(ch)
    out.append('"')
    return "".join(out)


# ---------------------------------------------------------------- rendering

def rx(e):
    k = e[0]
    if k == "lit":
        ty, v = e[1], e[2]
        if ty == "int":
            return str(v)      # negative literals unparenthesised: "a < (-1)) && (...)" trips the grammar's type-argument rule
        if ty == "uint":
            return "(%d as uint)" % v   # a bare literal is an int; only inside arithmetic with a uint operand is it left bare (see "bin")
        if ty == "double":
            return repr(float(v))
        if ty == "bool":
            return "true" if v else "false"
        if ty == "string":
            return jsstr(v)
        raise ValueError(ty)
    if k == "null":
        return "null"
    if k == "enum":
        return e[1]
    if k == "obj":
        return e[1]
    if k == "this":
        return "this"
    if k == "local":
        return e[1]
    if k == "this_prop":
        return e[1]
    if k == "prop":
        return "%s.%s" % (rx(e[1]), e[2])
    if k == "upcast":
        return "(%s as %s)" % (rx(e[2]), e[1])
    if k == "un":
        return "(%s%s)" % (e[1], rx(e[2]))
    if k == "and":
        return "(%s && %s)" % (rx(e[1]), rx(e[2]))
    if k == "or":
        return "(%s || %s)" % (rx(e[1]), rx(e[2]))
    if k == "tern":
        return "(%s ? %s : %s)" % (rx(e[1]), rx(e[2]), rx(e[3]))
    if k == "bin":
        a, b = e[3], e[4]
        ra = str(a[2]) if (a[0] == "lit" and a[1] == "uint" and b[0] != "lit") else rx(a)
        rb = str(b[2]) if (b[0] == "lit" and b[1] == "uint" and a[0] != "lit") else rx(b)
        return "(%s %s %s)" % (ra, e[2], rb)
    if k == "cast":
        return "(%s as %s)" % (rx(e[2]), e[1])
    if k == "max":
        return "Math.max(%s, %s)" % (rx(e[1]), rx(e[2]))
    if k == "min":
        return "Math.min(%s, %s)" % (rx(e[1]), rx(e[2]))
    if k == "tr":
        return "qsTr(%s)" % jsstr(e[1])
    if k == "arg":
        return "%s.arg(%s)" % (rx(e[1]), rx(e[2]))
    if k == "isEmpty":
        return "%s.isEmpty()" % rx(e[1])
    if k == "list":
        return "[%s]" % ", ".join(rx(x) for x in e[2])
    if k == "sub":
        return "%s[%s]" % (rx(e[1]), rx(e[2]))
    raise ValueError(k)


def rs(s, ind):
    """statement -> list of lines"""
    p = " " * ind
    k = s[0]
    if k == "let":
        ann = (": " + s[3]) if len(s) > 3 and s[3] else ""
        return ["%s%s %s%s = %s;" % (p, s[4] if len(s) > 4 and s[4] else "let", s[1], ann, rx(s[2]))]
    if k == "assign":
        return ["%s%s = %s;" % (p, s[1], rx(s[2]))]
    if k == "return":
        return [p + ("return %s;" % rx(s[1]) if s[1] is not None else "return;")]
    if k == "expr":
        return [p + rx(s[1])]
    if k == "break":
        return [p + "break;"]
    if k == "if":
        L = ["%sif (%s) {" % (p, rx(s[1]))]
        for t in s[2]:
            L += rs(t, ind + 4)
        if s[3] is not None:
            L.append(p + "} else {")
            for t in s[3]:
                L += rs(t, ind + 4)
        L.append(p + "}")
        return L
    if k == "switch":
        L = ["%sswitch (%s) {" % (p, rx(s[1]))]
        for c, body in s[2]:
            L.append(p + ("case %s:" % rx(c) if c is not None else "default:"))
            for t in body:
                L += rs(t, ind + 4)
        L.append(p + "}")
        return L
    if k == "setprop":
        tgt = (rx(s[1]) + "." + s[2]) if s[1] is not None else s[2]
        return ["%s%s = %s;" % (p, tgt, rx(s[3]))]
    if k == "call":
        tgt = (rx(s[1]) + "." + s[2]) if s[1] is not None else s[2]
        return ["%s%s(%s);" % (p, tgt, ", ".join(rx(a) for a in s[3]))]
    if k == "log":
        fn = {"debug": "log", "debug2": "debug", "info": "info", "warning": "warn", "critical": "error"}[s[3] if len(s) > 3 else s[1]]
        return ["%sconsole.%s(%s);" % (p, fn, ", ".join(rx(a) for a in s[2]))]
    raise ValueError(k)


def render_body(body, ind):
    if body["kind"] == "expr":
        return rx(body["expr"])
    if body["kind"] == "expr_stmt":
        return rs(body["stmt"], 0)[0].rstrip(";")
    L = ["{"]
    for s in body["stmts"]:
        L += rs(s, ind + 4)
    L.append(" " * ind + "}")
    return "\n".join(L)


def render_doc(doc):
    L = ["import qmluic.QtWidgets", "", "%s {" % doc["root"]["cls"], "    id: %s" % doc["root"]["id"]]

    def emit_members(o, ind):
        p = " " * ind
        for prop, e in o["consts"]:
            L.append("%s%s: %s" % (p, prop, rx(e)))
        for b in o["bindings"]:
            name = b["target"] + ("." + b["sub"] if b.get("sub") else "")
            L.append("%s%s: %s" % (p, name, render_body(b["body"], ind)))
        for h in o["handlers"]:
            if h["form"] == "function":
                params = ", ".join("%s: %s" % (n, t) for n, t in h["params"])
                L.append("%s%s: function(%s) %s" % (p, h["on"], params, render_body(h["body"], ind)))
            else:
                L.append("%s%s: %s" % (p, h["on"], render_body(h["body"], ind)))

    emit_members(doc["root"], 4)
    L.append("    QVBoxLayout {")
    for o in doc["objects"]:
        L.append("        %s {" % o["cls"])
        if o.get("id"):
            L.append("            id: %s" % o["id"])
        emit_members(o, 12)
        L.append("        }")
    L.append("    }")
    L.append("}")
    return "\n".join(L) + "\n"


def has_read(x):
    if isinstance(x, dict):
        return any(has_read(v) for v in x.values())
    if isinstance(x, list):
        if x and x[0] in ("prop", "this_prop"):
            return True
        return any(has_read(v) for v in x)
    return False


# ---------------------------------------------------------------- generation

SRC = {  # readable sources by type: (class that declares it, property, layer)
    "int": [("SimWidget", "intVal", 0), ("SimWidget", "pickVal", 0), ("SimWidget", "mid1", 1)],
    "uint": [("SimWidget", "uintVal", 0)],
    "double": [("SimWidget", "realVal", 0)],
    "bool": [("SimWidget", "flag", 0), ("SimWidget", "flag2", 0), ("SimWidget", "midFlag", 1)],
    "string": [("SimWidget", "text", 0), ("SimWidget", "text2", 0), ("SimWidget", "midText", 1)],
    "mode": [("SimWidget", "mode", 0)],
    "opts": [("SimWidget", "opts", 0)],
    "strlist": [("SimWidget", "items", 0)],
}
MSRC = {"int": "count", "string": "title"}
TARGETS = {  # layer-2 sinks by type
    "int": ["out1", "out2", "barBaz", "barBaz1", "baz"], "uint": ["outU"], "double": ["outReal"], "bool": ["outFlag"],
    "string": ["outText", "outText2"], "mode": ["outMode"], "opts": ["outOpts"], "strlist": ["outItems"], "pw": ["outPeer"],
}
MID_TARGETS = {"int": ["mid1"], "string": ["midText"], "bool": ["midFlag"], "pw": ["midPeer"]}
ROOT_TARGETS = {"string": ["windowTitle", "toolTip", "statusTip"], "bool": ["enabled"], "int": ["minimumWidth"]}
INT_VALUES = [-20, -7, -3, -1, 0, 1, 2, 3, 5, 8, 13, 40]
REAL_VALUES = [-2.0, -0.5, 0.0, 0.5, 1.25, 3.0, 10.0]


class Gen:
    def __init__(self, rng, profile="mixed"):
        self.r = rng
        self.profile = profile
        self.pins = set()
        self.uid = 0
        self.objs = []       # in-document objects: dicts
        self.named = []      # (id, cls)
        self.has_midpeer = set()
        self.cur_owner = None
        self.owner_cls = "SimWidget"
        self.cur_layer = 2
        self.locals_ctr = 0
        self.strctr = 0
        self.notify_handlers = True
        self.notify_after = None
        self.real_named = []   # (id, class) of objects of real Qt classes

    # ---- helpers
    def fresh_str(self, tag="s"):
        self.strctr += 1
        w = self.r.choice(WORDS)
        extra = self.r.choice(["", "", "", " x", "é", "-%d" % self.strctr])
        if getattr(self, "cur_layer", None) == 3 and self.r.chance(0.2):
            # inside handlers (these never reach the .ui, which cannot hold control characters): a control character right
            # before characters that are hex or octal digits, quotes, a backslash, a trigraph-like run
            extra = self.r.choice(["\x071", "\x1fda", "\x024f", "\x7f7", "\x1b[1m", "\x0112", "\"q\"", "a\\b", "??/", "\x08\x0c"])
        return "%s%d%s" % (w, self.strctr, extra)

    def lit(self, ty):
        r = self.r
        if ty == "int":
            return ["lit", "int", r.choice([0, 1, 2, 3, 4, 7, -1, -5, 10])]
        if ty == "uint":
            return ["lit", "uint", r.choice([0, 1, 2, 3, 9])]
        if ty == "double":
            return ["lit", "double", r.choice([0.5, 1.25, 2.0, -1.5, 3.0])]
        if ty == "bool":
            return ["lit", "bool", r.chance(0.5)]
        if ty == "string":
            return ["lit", "string", self.fresh_str()]
        if ty == "mode":
            return ["enum", "SimWidget." + r.choice(sc.MODE_VALUES)]
        if ty == "opts":
            return ["enum", "SimWidget." + r.choice([v for v, _ in sc.OPT_VALUES])]
        if ty == "strlist":
            return ["list", "string", [["lit", "string", self.fresh_str()] for _ in range(r.randint(1, 3))]]
        raise ValueError(ty)

    def widgets_named(self, exact=None):
        return [(i, c) for i, c in self.named if (exact is None or c == exact)]

    # ---- object expressions: -> (ast, nullable_reads)
    def obj_widget(self, depth, allow_mid=False):
        """expression of static type SimWidget* (exact), plus the set of pointer reads that make it null.
        A bound pointer (midPeer) may still be null while setup() runs its first updates in document
        order, so it is only produced where the caller will null-guard the dereference (allow_mid)."""
        r = self.r
        choices = [(5, "named")]
        if depth > 0:
            choices += [(3, "peer"), (1, "tern"), (1, "sub")]
            if allow_mid and self.cur_layer >= 2 and [i for i in self.has_midpeer if i != self.cur_owner]:
                choices.append((3, "midPeer"))
        k = r.weighted(choices)
        if k == "named":
            cands = self.widgets_named()
            # never read through the owner's own bound pointers
            i, c = r.choice(cands)
            if c == "SimWidget":
                return ["obj", i], set()
            return ["upcast", "SimWidget", ["obj", i]], set()
        if k == "peer":
            base, nb = self.obj_widget(depth - 1)
            self.pins |= nb
            return ["prop", base, "peer"], {(self.base_name(base), "peer")}
        if k == "midPeer":
            i = r.choice(sorted(i for i in self.has_midpeer if i != self.cur_owner))
            return ["prop", ["obj", i], "midPeer"], {(i, "midPeer")}
        if k == "tern":
            a, na = self.obj_widget(depth - 1, allow_mid)
            b, nb = self.obj_widget(depth - 1, allow_mid)
            return ["tern", self.gen("bool", 1), a, b], na | nb
        if k == "sub":
            a, na = self.obj_widget(depth - 1, allow_mid)
            b, nb = self.obj_widget(depth - 1, allow_mid)
            return ["sub", ["list", "SimWidget", [a, b]], ["cast", "int", self.gen("bool", 1)]], na | nb
        raise AssertionError

    def obj_model(self, depth):
        r = self.r
        base, nb = self.obj_widget(max(depth - 1, 0))
        self.pins |= nb
        e, n = ["prop", base, "model"], {(self.base_name(base), "model")}
        if depth > 1 and r.chance(0.35):
            self.pins |= n
            e, n = ["prop", e, "next"], {("*", "next")}
        return e, n

    def base_name(self, base):
        if base[0] == "obj":
            return base[1]
        if base[0] == "upcast" and base[2][0] == "obj":
            return base[2][1]
        return "*"

    # ---- reads of a typed property through some object expression
    def read(self, ty, depth):
        """a property read of type ty: (ast, object expr, nullable reads of the object expr)"""
        r = self.r
        opts = []
        srcs = [x for x in SRC.get(ty, []) if x[2] < self.cur_layer]
        if srcs:
            opts += [(6, "w")]
        if ty in MSRC:
            opts += [(2, "m")]
        if ty == "int" and any(c == "SimPanel" for _, c in self.named):
            opts += [(1, "level")]
        if srcs and self.owner_cls in ("SimWidget", "SimPanel") and any(x[2] == 0 for x in srcs):
            opts += [(2, "this")]
        real = self.real_sources(ty)
        if real:
            opts += [(3, "real")]
        if not opts:
            return self.lit(ty), None, set()
        k = r.weighted(opts)
        if k == "real":
            i, p = r.choice(real)
            return ["prop", ["obj", i], p], None, set()
        if k == "this":
            x = r.choice([x for x in srcs if x[2] == 0])
            return ["this_prop", x[1]], None, set()
        if k == "level":
            i = r.choice([i for i, c in self.named if c == "SimPanel"])
            return ["prop", ["obj", i], "level"], None, set()
        if k == "m":
            o, n = self.obj_model(depth)
            return ["prop", o, MSRC[ty]], o, n
        x = r.choice(srcs)
        if x[2] >= 1:
            o, n = self.obj_widget(0)
        else:
            o, n = self.obj_widget(depth, allow_mid=True)
        return ["prop", o, x[1]], o, n

    def real_sources(self, ty):
        out = []
        for i, c in self.real_named:
            for p in sc.all_props(c):
                if p["layer"] == 0 and TY_OF.get(p["type"]) == ty:
                    out.append((i, p["name"]))
        return out

    def guarded(self, ty, depth):
        """typed read, null-guarded when its object expression may be null"""
        e, o, n = self.read(ty, depth)
        if not n:
            return e
        if any(p == "midPeer" for _, p in n) or self.r.chance(0.55):
            # guard in the expression: (o != null ? o.p : k)  /  (o == null ? k : o.p)
            k = self.lit(ty) if ty not in ("pw", "pm") else ["null"]
            if self.r.chance(0.5):
                return ["tern", ["bin", "ptr", "!=", o, ["null"]], e, k]
            return ["tern", ["bin", "ptr", "==", o, ["null"]], k, e]
        self.pins |= n
        return e

    # ---- typed expression generator
    def gen(self, ty, depth):
        r = self.r
        if ty == "pw":
            return self.obj_widget(max(depth, 0))[0]   # a null result is fine for a pointer-valued sink
        if depth <= 0:
            return self.guarded(ty, 0) if r.chance(0.75) and (SRC.get(ty) or ty in MSRC or self.real_sources(ty)) else self.lit(ty)
        if ty == "int":
            k = r.weighted([(5, "read"), (4, "arith"), (2, "tern"), (1, "cast"), (1, "minmax"), (1, "divmod"), (1, "bits"), (1, "neg"), (1, "sub")])
            if k == "read":
                return self.guarded("int", depth)
            if k == "arith":
                return ["bin", "int", r.choice(["+", "-", "+"]), self.gen("int", depth - 1), self.gen("int", depth - 1)]
            if k == "tern":
                return ["tern", self.gen("bool", depth - 1), self.gen("int", depth - 1), self.gen("int", depth - 1)]
            if k == "cast":
                return ["cast", "int", r.choice([self.gen("bool", depth - 1), self.guarded("mode", 0), self.guarded("opts", 0), self.guarded("uint", 0), self.guarded("double", 0)])]
            if k == "minmax":
                return [r.choice(["max", "min"]), self.gen("int", depth - 1), self.gen("int", depth - 1)]
            if k == "divmod":
                return ["bin", "int", r.choice(["/", "%"]), self.gen("int", depth - 1), ["lit", "int", r.choice([2, 3, 5, -2])]]
            if k == "bits":
                op = r.choice(["&", "|", "^", ">>", "<<"])
                if op in (">>", "<<"):
                    return ["bin", "int", op, ["bin", "int", "&", self.guarded("int", 0), ["lit", "int", 15]], ["lit", "int", r.choice([1, 2])]]
                return ["bin", "int", op, self.guarded("int", 0), ["lit", "int", r.choice([1, 6, 12])]]
            if k == "neg":
                return ["un", r.choice(["-", "+", "~"]), self.guarded("int", 0)]
            if k == "sub":
                return ["bin", "int", "*", self.guarded("int", 0), ["lit", "int", r.choice([2, 3, -1])]]
        if ty == "uint":
            k = r.weighted([(4, "read"), (3, "arith"), (1, "tern"), (1, "cast")])
            if k == "read":
                return self.guarded("uint", depth)
            if k == "arith":
                return ["bin", "uint", r.choice(["+", "*"]), self.guarded("uint", 0), r.choice([self.guarded("uint", 0), ["lit", "uint", r.choice([1, 2, 3])]])]
            if k == "tern":
                return ["tern", self.gen("bool", depth - 1), self.gen("uint", depth - 1), self.gen("uint", depth - 1)]
            if k == "cast":
                return ["cast", "uint", ["max", self.gen("int", depth - 1), ["lit", "int", 0]]]
        if ty == "double":
            k = r.weighted([(4, "read"), (3, "arith"), (1, "tern"), (1, "cast"), (1, "minmax")])
            if k == "read":
                return self.guarded("double", depth)
            if k == "arith":
                return ["bin", "double", r.choice(["+", "-", "*"]), self.gen("double", depth - 1), r.choice([self.lit("double"), self.guarded("double", 0)])]
            if k == "tern":
                return ["tern", self.gen("bool", depth - 1), self.gen("double", depth - 1), self.gen("double", depth - 1)]
            if k == "cast":
                return ["cast", "double", self.gen("int", depth - 1)]
            if k == "minmax":
                return [r.choice(["max", "min"]), self.guarded("double", 0), self.lit("double")]
        if ty == "bool":
            k = r.weighted([(4, "read"), (3, "cmp"), (2, "logic"), (1, "not"), (1, "strcmp"), (1, "empty"), (1, "ptrcmp"), (1, "enumcmp"), (1, "bits")])
            if k == "read":
                return self.guarded("bool", depth)
            if k == "cmp":
                t = r.choice(["int", "int", "uint", "double"])
                return ["bin", t, r.choice(["<", "<=", ">", ">=", "==", "!="]), self.gen(t, depth - 1), r.choice([self.lit(t), self.gen(t, depth - 1)])]
            if k == "logic":
                # reads under && / || are only reached on some paths
                return [r.choice(["and", "or"]), self.gen("bool", depth - 1), self.gen("bool", depth - 1)]
            if k == "not":
                return ["un", "!", self.gen("bool", depth - 1)]
            if k == "strcmp":
                return ["bin", "string", r.choice(["==", "!=", "<"]), self.guarded("string", 0), r.choice([["lit", "string", r.choice(["alpha", "m", ""])], self.guarded("string", 0)])]
            if k == "empty":
                return ["isEmpty", r.choice([self.guarded("string", 0), self.guarded("strlist", 0)])]
            if k == "ptrcmp":
                o, n = self.obj_widget(1)
                if r.chance(0.5):
                    return ["bin", "ptr", r.choice(["==", "!="]), o, ["null"]]
                o2, n2 = self.obj_widget(0)
                return ["bin", "ptr", r.choice(["==", "!="]), o, o2]
            if k == "enumcmp":
                return ["bin", "mode", r.choice(["==", "!="]), self.guarded("mode", 0), self.lit("mode")]
            if k == "bits":
                return ["bin", "bool", r.choice(["&", "|", "^"]), self.guarded("bool", 0), self.guarded("bool", 0)]
        if ty == "string":
            k = r.weighted([(4, "read"), (3, "concat"), (2, "tern"), (1, "arg"), (1, "tr"), (1, "sub")])
            if k == "read":
                return self.guarded("string", depth)
            if k == "concat":
                return ["bin", "string", "+", self.gen("string", depth - 1), r.choice([self.lit("string"), self.gen("string", depth - 1)])]
            if k == "tern":
                return ["tern", self.gen("bool", depth - 1), self.gen("string", depth - 1), self.gen("string", depth - 1)]
            if k == "arg":
                base = r.choice([["lit", "string", "v=%1;"], ["tr", "n %1 of %2"], ["lit", "string", "%2-%1"]])
                a = r.choice([self.gen("int", depth - 1), self.guarded("string", 0), self.guarded("uint", 0)])
                e = ["arg", base, a]
                if r.chance(0.4):
                    e = ["arg", e, self.gen("int", 0)]
                return e
            if k == "tr":
                return ["tr", "tr-" + self.fresh_str()]
            if k == "sub":
                # constant in-range subscript of a list literal mixing dynamic and constant items
                items = [self.guarded("string", 0), self.lit("string"), self.guarded("string", 0)]
                return ["sub", ["list", "string", items], ["lit", "int", r.randint(0, 2)]]
        if ty == "mode":
            k = r.weighted([(3, "read"), (2, "tern")])
            if k == "read":
                return self.guarded("mode", depth)
            return ["tern", self.gen("bool", depth - 1), self.lit("mode"), self.gen("mode", depth - 1)]
        if ty == "opts":
            k = r.weighted([(3, "read"), (2, "bits"), (1, "tern"), (1, "inv")])
            if k == "read":
                return self.guarded("opts", depth)
            if k == "bits":
                return ["bin", "opts", r.choice(["|", "&", "^"]), self.guarded("opts", 0), self.lit("opts")]
            if k == "tern":
                return ["tern", self.gen("bool", depth - 1), self.gen("opts", depth - 1), self.guarded("opts", 0)]
            return ["bin", "opts", "&", ["un", "~", self.guarded("opts", 0)], ["bin", "opts", "|", ["enum", "SimWidget.OptA"], ["bin", "opts", "|", ["enum", "SimWidget.OptB"], ["enum", "SimWidget.OptC"]]]]
        if ty == "strlist":
            k = r.weighted([(3, "read"), (2, "lit"), (1, "tern")])
            if k == "read":
                return self.guarded("strlist", depth)
            if k == "lit":
                return ["list", "string", [r.choice([self.lit("string"), self.guarded("string", 0)]) for _ in range(r.randint(1, 3))]]
            return ["tern", self.gen("bool", depth - 1), self.guarded("strlist", 0), ["list", "string", [self.lit("string")]]]
        raise ValueError(ty)

    # ---- block bodies: dependency reached through locals, across blocks
    def gen_block(self, ty, depth):
        r = self.r
        k = r.weighted([(3, "local-obj"), (2, "if-assign"), (2, "switch"), (2, "guard-let"), (1, "same-block"), (1, "const"),
                        (3, "reassign-straight"), (1, "two-locals"), (2, "read-around-branch"), (1, "reassign-named"), (3, "two-props"), (3, "arms")])
        pairs = {"int": ("intVal", "pickVal"), "string": ("text", "text2"), "bool": ("flag", "flag2")}
        self.locals_ctr += 1
        v = "v%d" % self.locals_ctr
        if k == "two-props" and ty in pairs:
            # exclusive paths reading DIFFERENT notifying properties of the SAME dynamically reached object:
            # each path needs its own subscription although the object (and its address) is the same
            a, na = self.obj_widget(1)
            self.pins |= na | {(self.base_name(a), "peer")}
            o = ["prop", a, "peer"]
            p1, p2 = pairs[ty]
            if r.chance(0.5):
                p1, p2 = p2, p1
            c = self.dyn_bool()
            form = r.below(4)
            if form == 0:
                return {"kind": "expr", "expr": ["tern", c, ["prop", o, p1], ["prop", o, p2]]}
            if form == 1:
                return {"kind": "block", "stmts": [["if", c, [["return", ["prop", o, p1]]], None], ["return", ["prop", o, p2]]]}
            if form == 2:
                return {"kind": "block", "stmts": [["let", v, o], ["if", c, [["return", ["prop", ["local", v], p1]]], [["return", ["prop", ["local", v], p2]]]]]}
            return {"kind": "block", "stmts": [["let", v, o], ["switch", ["cast", "int", c], [[["lit", "int", 0], [["return", ["prop", ["local", v], p1]]]],
                                                                                               [None, [["return", ["prop", ["local", v], p2]]]]]]]}
        if ty in ("pw",):
            k = "if-assign-obj"
        if k == "same-block" and SRC.get(ty):
            # let a = w; a.p  (same-block tracking => static dependency)
            i, c = r.choice(self.widgets_named())
            s = r.choice([s for s in SRC[ty] if s[2] < self.cur_layer and (s[2] == 0)] or [None])
            if s:
                return {"kind": "block", "stmts": [["let", v, ["obj", i]], ["return", ["prop", ["local", v], s[1]]]]}
        if k == "local-obj" and SRC.get(ty):
            # a local assigned in one block and read in another => observer
            a, na = self.obj_widget(1)
            b, nb = self.obj_widget(1)
            self.pins |= na | nb
            s = r.choice([s for s in SRC[ty] if s[2] == 0] or [None])
            if s:
                return {"kind": "block", "stmts": [["let", v, a], ["if", self.gen("bool", 1), [["assign", v, b]], None],
                                                   ["return", ["prop", ["local", v], s[1]]]]}
        comb = {"int": lambda a, b: ["bin", "int", "+", a, b], "string": lambda a, b: ["bin", "string", "+", a, b],
                "bool": lambda a, b: ["bin", "bool", "^", a, b], "double": lambda a, b: ["bin", "double", "+", a, b],
                "uint": lambda a, b: ["bin", "uint", "+", a, b]}.get(ty)
        src0 = [x for x in SRC.get(ty, []) if x[2] == 0]
        if k == "arms" and comb and src0 and len(self.widgets_named()) >= 2:
            # a local holding a NAMED object (so its reads can be connected statically), re-pointed inside one arm of an
            # if / else and read in the other arm, in the same arm, and after the join: what the local holds at a read is
            # decided by the path that leads there, not by the statement printed just above it
            pr = r.choice(src0)[1]

            def nm():
                i, c = r.choice(self.widgets_named())
                return ["obj", i] if c == "SimWidget" else ["upcast", "SimWidget", ["obj", i]]
            self.locals_ctr += 1
            s1 = "s%d" % self.locals_ctr
            rd = ["prop", ["local", v], pr]
            then, other = [], []
            if r.chance(0.85):
                then.append(["assign", v, nm()])
            if r.chance(0.6):
                then.append(["assign", s1, rd])
            if r.chance(0.35):
                other.append(["assign", v, nm()])
            if r.chance(0.85) or not then:
                other.append(["assign", s1, rd])
            if r.chance(0.3):
                then, other = other, then
            stmts = [["let", v, nm()], ["let", s1, self.lit(ty)], ["if", self.dyn_bool(), then or [["assign", s1, rd]], other or None]]
            stmts.append(["return", comb(["local", s1], rd) if r.chance(0.4) else ["local", s1]])
            return {"kind": "block", "stmts": stmts}
        if k in ("reassign-straight", "two-locals", "read-around-branch", "reassign-named") and comb and src0:
            # one local (or two) holding dynamically obtained pointers, re-assigned in straight-line code or around a
            # branch between two reads of the same property: every generation of the local needs its own subscription
            pr = r.choice(src0)[1]
            a, na = self.obj_widget(1)
            b, nb = self.obj_widget(1)
            self.pins |= na | nb | {(self.base_name(a), "peer"), (self.base_name(b), "peer")}
            pa, pb = ["prop", a, "peer"], ["prop", b, "peer"]
            self.locals_ctr += 1
            s1 = "s%d" % self.locals_ctr
            if k == "reassign-straight":
                return {"kind": "block", "stmts": [["let", v, pa], ["let", s1, ["prop", ["local", v], pr]], ["assign", v, pb],
                                                   ["return", comb(["local", s1], ["prop", ["local", v], pr])]]}
            if k == "two-locals":
                return {"kind": "block", "stmts": [["let", v, pa], ["let", s1, pb],
                                                   ["return", comb(["prop", ["local", v], pr], ["prop", ["local", s1], pr])]]}
            if k == "reassign-named":
                i, c = r.choice(self.widgets_named())
                nm = ["obj", i] if c == "SimWidget" else ["upcast", "SimWidget", ["obj", i]]
                first, second = (nm, pb) if r.chance(0.5) else (pa, nm)
                return {"kind": "block", "stmts": [["let", v, first], ["let", s1, ["prop", ["local", v], pr]], ["assign", v, second],
                                                   ["return", comb(["local", s1], ["prop", ["local", v], pr])]]}
            return {"kind": "block", "stmts": [["let", v, pa], ["let", s1, ["prop", ["local", v], pr]],
                                               ["if", self.dyn_bool(), [["assign", v, pb]], None],
                                               ["return", comb(["local", s1], ["prop", ["local", v], pr])]]}
        if k == "guard-let" and SRC.get(ty):
            # let p = X.peer; if (p != null) return p.prop; return k
            base, nb = self.obj_widget(1)
            self.pins |= nb
            s = r.choice([s for s in SRC[ty] if s[2] == 0] or [None])
            if s:
                return {"kind": "block", "stmts": [["let", v, ["prop", base, "peer"]],
                                                   ["if", ["bin", "ptr", "!=", ["local", v], ["null"]], [["return", ["prop", ["local", v], s[1]]]], None],
                                                   ["return", self.gen(ty, 1)]]}
        if k == "switch" and ty in ("int", "string", "bool", "double", "uint"):
            d = self.guarded("int", 0)
            clauses = []
            vals = r.sample([0, 1, 2, 3, 5, -1], r.randint(2, 4))
            use_var = r.chance(0.5)
            init = self.lit(ty)
            defpos = r.randint(0, len(vals)) if r.chance(0.8) else None
            for j, cv in enumerate(vals):
                if defpos == j:
                    clauses.append([None, self.clause_body(ty, v, use_var, r)])
                clauses.append([["lit", "int", cv], self.clause_body(ty, v, use_var, r)])
            if defpos == len(vals):
                clauses.append([None, self.clause_body(ty, v, use_var, r)])
            stmts = []
            if use_var:
                stmts.append(["let", v, init])
            stmts.append(["switch", d, clauses])
            # what follows a switch (after break / conditional break / fall out of the last clause) reads properties too
            stmts.append(["return", self.tail_value(ty, v) if use_var else self.gen(ty, 1)])
            return {"kind": "block", "stmts": stmts}
        if k == "const":
            lit = self.lit(ty) if ty != "strlist" else None
            if lit is not None and ty in ("int", "string", "bool", "double"):
                ann = {"int": "int", "string": "QString", "bool": "bool", "double": "double"}[ty]
                e = self.gen(ty, depth)
                op = {"int": ["bin", "int", "+", e, ["local", v]], "string": ["bin", "string", "+", e, ["local", v]],
                      "bool": ["bin", "bool", "^", e, ["local", v]], "double": ["bin", "double", "+", e, ["local", v]]}[ty]
                return {"kind": "block", "stmts": [["let", v, lit, ann, "const"], ["return", op]]}
        if k == "if-assign-obj":
            a, na = self.obj_widget(1)
            b, nb = self.obj_widget(1)
            return {"kind": "block", "stmts": [["let", v, a], ["if", self.gen("bool", 1), [["assign", v, b]], None], ["return", ["local", v]]]}
        # if-assign (default)
        stmts = [["let", v, self.gen(ty, 1)],
                 ["if", self.gen("bool", depth), [["assign", v, self.gen(ty, 1)]], ([["assign", v, self.gen(ty, 1)]] if r.chance(0.5) else None)]]
        if r.chance(0.3):
            stmts.append(["if", self.gen("bool", 1), [["return", self.gen(ty, 1)]], None])
        stmts.append(["return", self.tail_value(ty, v)] if r.chance(0.7) else ["expr", ["local", v]])
        return {"kind": "block", "stmts": stmts}

    def tail_value(self, ty, v):
        """the value returned after a control construct: the local, or the local combined with one more property read
        (a dependency that only exists in the code *after* the construct)"""
        comb = {"int": lambda a, b: ["bin", "int", "+", a, b], "string": lambda a, b: ["bin", "string", "+", a, b],
                "bool": lambda a, b: ["bin", "bool", "^", a, b], "double": lambda a, b: ["bin", "double", "+", a, b],
                "uint": lambda a, b: ["bin", "uint", "+", a, b]}.get(ty)
        if comb and self.r.chance(0.6):
            return comb(["local", v], self.guarded(ty, 1))
        return ["local", v]

    def clause_body(self, ty, v, use_var, r):
        if use_var:
            body = [["assign", v, self.gen(ty, 1)]]
            k = r.below(10)
            if k < 6:
                body.append(["break"])
            elif k < 8:
                body = [["if", self.gen("bool", 0), [["assign", v, self.gen(ty, 0)], ["break"]], None]] + body   # conditional break, else fall through
            elif k < 9:
                body = []                                   # empty clause falls through
            return body
        if r.chance(0.75):
            return [["return", self.gen(ty, 1)]]
        return []

    def dyn_bool(self):
        """a bool expression that certainly reads a property"""
        i, c = self.r.choice(self.widgets_named())
        e = ["prop", ["obj", i], "flag"]
        if self.r.chance(0.4):
            e = self.r.choice([["un", "!", e], ["or", e, self.gen("bool", 0)], ["and", e, self.gen("bool", 0)]])
        return e

    def body(self, ty, depth):
        if self.r.chance(0.3 if self.profile != "blocks" else 0.7):
            b = self.gen_block(ty, depth)
        else:
            b = {"kind": "expr", "expr": self.gen(ty, depth)}
        if ty == "pw" and not has_read(b):
            a, _ = self.obj_widget(0)
            b = {"kind": "expr", "expr": ["tern", self.dyn_bool(), a, b["expr"] if b["kind"] == "expr" else self.obj_widget(0)[0]]}
        return b

    # ---- handlers
    def gen_handler(self, owner, cls):
        r = self.r
        sigs = [("poked", "onPoked", [("int", "int"), ("bool", "bool")], 2), ("fired", "onFired", [], 0),
                ("tuned", "onTuned", [("int", "int"), ("int", "int"), ("bool", "bool")], 0),
                ("renamed", "onRenamed", [("QString", "string"), ("int", "int")], 1)]
        if cls == "SimPanel":
            sigs.append(("raised", "onRaised", [("int", "int")], 0))
        if cls in ("SimWidget", "SimPanel") and self.notify_handlers:
            # handlers on the notify signals of sources: they run inside setters, nested in whatever caused the change.
            # textChanged has the entries textChanged() and textChanged(QString), which qmluic takes for default-argument clones
            sigs += [("intValChanged", "onIntValChanged", [("int", "int")], "notify"), ("flagChanged", "onFlagChanged", [("bool", "bool")], "notify"),
                     ("textChanged", "onTextChanged", [("QString", "string")], "notify")]
            if cls == "SimPanel":
                sigs.append(("levelChanged", "onLevelChanged", [("int", "int")], "notify"))
            # re-entrant handlers: the first statement makes the sender overwrite (and re-emit) the very value it is
            # emitting, later statements use the parameter - which must still be the value of THIS emission
            sigs += [("pickValChanged", "onPickValChanged", [("int", "int")], "rewrite"), ("pickFontChanged", "onPickFontChanged", [("QFont", "font")], "rewrite")]
        if cls in sc.BY_NAME and sc.BY_NAME[cls].get("real"):
            sigs = []
            chain = [c["name"] for c in sc.class_chain(cls)]
            table = {
                "QAbstractButton": [("clicked", "onClicked", [("bool", "bool")], 0), ("pressed", "onPressed", [], 0), ("released", "onReleased", [], 0),
                                    ("toggled", "onToggled", [("bool", "bool")], "notify")],
                "QLineEdit": [("returnPressed", "onReturnPressed", [], 0), ("editingFinished", "onEditingFinished", [], 0),
                              ("textEdited", "onTextEdited", [("QString", "string")], 0), ("textChanged", "onTextChanged", [("QString", "string")], "notify")],
                "QAbstractSpinBox": [("editingFinished", "onEditingFinished", [], 0)],
                "QAbstractSlider": [("sliderPressed", "onSliderPressed", [], 0), ("sliderReleased", "onSliderReleased", [], 0), ("sliderMoved", "onSliderMoved", [("int", "int")], 0),
                                    ("rangeChanged", "onRangeChanged", [("int", "int"), ("int", "int")], 0), ("valueChanged", "onValueChanged", [("int", "int")], "notify")],
                "QProgressBar": [("valueChanged", "onValueChanged", [("int", "int")], "notify")],
                "QLabel": [("linkActivated", "onLinkActivated", [("QString", "string")], 0), ("linkHovered", "onLinkHovered", [("QString", "string")], 0)],
            }
            for cn in chain:
                sigs += table.get(cn, [])
            if not self.notify_handlers:
                sigs = [x for x in sigs if x[3] != "notify"]
        if cls == "QDialog":
            sigs = [("accepted", "onAccepted", [], 0), ("rejected", "onRejected", [], 0), ("finished", "onFinished", [("int", "int")], 0)]
        if cls == "QWidget":
            return None
        taken = set(h["signal"] for h in owner["handlers"])
        sigs = [s for s in sigs if s[0] not in taken]
        if not sigs:
            return None
        name, on, args, tag = r.choice(sigs)
        is_notify = tag in ("notify", "rewrite")
        nparams = r.randint(0, len(args))
        if tag == "rewrite":
            return self.gen_rewrite_handler(owner, cls, name, on, args)
        form = "function" if nparams > 0 else r.choice(["function", "block", "expr"])
        params = []
        self.param_env = {}
        for k in range(nparams):
            pn = "p%d" % k
            params.append([pn, args[k][0]])
            self.param_env.setdefault(args[k][1], []).append(pn)
        sigkey = "%s(%s)" % (name, ",".join(a[0] for a in args))
        save = (self.cur_owner, self.cur_layer, self.owner_cls)
        self.cur_owner, self.cur_layer, self.owner_cls = owner.get("id"), 3, cls
        # a notify handler may only act on objects later in document order (so nested deliveries cannot recurse)
        # and reads no bound property (whether a binding ran before or after the handler is connection order, not semantics)
        self.notify_after = None
        if is_notify:
            idx = self.objs.index(owner) if owner in self.objs else len(self.objs)
            self.notify_after = [o["id"] for o in self.objs[idx + 1:] if o.get("id")]
        try:
            if form == "expr":
                body = {"kind": "expr_stmt", "stmt": self.handler_stmt(simple=True)}
            else:
                body = {"kind": "block", "stmts": self.handler_stmts(r.randint(1, 5))}
        finally:
            self.cur_owner, self.cur_layer, self.owner_cls = save
            self.param_env = {}
            self.notify_after = None
        return {"notify": is_notify, "signal": name, "sigkey": sigkey, "on": on, "params": params, "form": form, "body": body, "argtypes": [a[1] for a in args]}

    def gen_rewrite_handler(self, owner, cls, name, on, args):
        r = self.r
        prop = name[:-len("Changed")]
        pty = args[0][1]
        idx = self.objs.index(owner) if owner in self.objs else len(self.objs)
        later = [o["id"] for o in self.objs[idx + 1:] if o.get("id") and o["cls"] in ("SimWidget", "SimPanel")]
        others = [i for i, c in self.named if i != owner.get("id")]
        if not others:
            return None
        stmts = [["setprop", None, prop, ["prop", ["obj", r.choice(others)], prop]]]      # own source := another object's
        if later:
            stmts.append(["setprop", ["obj", r.choice(later)], prop, ["local", "p0"]])   # then hand on what THIS emission carried
        if pty == "int":
            stmts.append(["log", "info", [["lit", "string", "picked"], ["local", "p0"]], "info"])
            if later and r.chance(0.5):
                stmts.append(["setprop", ["obj", r.choice(later)], "intVal", ["bin", "int", "+", ["local", "p0"], ["lit", "int", 1]]])
        elif not later:
            return None        # a QFont cannot be logged; without a later object nothing would use the parameter
        sigkey = "%s(%s)" % (name, args[0][0])
        return {"notify": True, "rewrite": True, "signal": name, "sigkey": sigkey, "on": on, "params": [["p0", args[0][0]]], "form": "function",
                "body": {"kind": "block", "stmts": stmts}, "argtypes": [pty]}

    def hval(self, ty):
        """value expression inside a handler: parameters, literals, reads of any layer"""
        r = self.r
        pe = getattr(self, "param_env", {})
        if ty in pe and r.chance(0.6):
            p = ["local", r.choice(pe[ty])]
            if ty == "int" and r.chance(0.4):
                return ["bin", "int", "+", p, ["lit", "int", r.choice([1, 2, -1])]]
            if ty == "string" and r.chance(0.4):
                return ["bin", "string", "+", p, self.lit("string")]
            if ty == "bool" and r.chance(0.3):
                return ["un", "!", p]
            return p
        if r.chance(0.45):
            return self.lit(ty)
        # read a named object's property (any layer: the handler sees the cascaded state)
        cands = []
        for i, c in self.named:
            for p in sc.all_props(c):
                if TY_OF.get(p["type"]) == ty and p["name"] not in ("silentVal",) and (p["notify"] or p["layer"] == 2 or p["constant"]):
                    if self.notify_after is not None and p["layer"] != 0:
                        continue
                    if p["layer"] in (1, 2) and not self.is_bound(i, p["name"]):
                        continue
                    cands.append(["prop", ["obj", i], p["name"]])
        for i, c in self.real_named:
            for p in sc.all_props(c):
                if TY_OF.get(p["type"]) == ty and p["layer"] == 0:
                    cands.append(["prop", ["obj", i], p["name"]])
        if cands:
            return r.choice(cands)
        return self.lit(ty)

    def is_bound(self, oid, prop):
        for o in self.objs:
            if o.get("id") == oid:
                return any(b["target"] == prop and not b.get("sub") for b in o["bindings"])
        return False

    def handler_stmt(self, simple=False):
        r = self.r
        k = r.weighted([(5, "set"), (3, "call"), (3, "log")])
        targets = [(i, c) for i, c in self.named]
        this_ok = self.owner_cls in ("SimWidget", "SimPanel")
        if self.notify_after is not None:
            targets = [(i, c) for i, c in self.named if i in self.notify_after]
            this_ok = False
            if not targets:
                k = "log"
        real_targets = [(i, c) for i, c in self.real_named if (self.notify_after is None or i in self.notify_after)
                        and any(p["layer"] == 0 for p in sc.all_props(c))]
        if real_targets and (not targets or r.chance(0.3)):
            i, c = r.choice(real_targets)
            if k in ("set", "log") or not sc.all_slots(c):
                p = r.choice([p for p in sc.all_props(c) if p["layer"] == 0])
                return ["setprop", ["obj", i], p["name"], self.hval(TY_OF[p["type"]])]
            owner, sl = r.choice(sc.all_slots(c))
            # a slot that reads a property (stepDown reads singleStep) is a read like any other: in a handler of a notify
            # signal, whether a binding fed by the same signal has already written that property is not stated anywhere
            implicit = {"stepUp": ("singleStep",), "stepDown": ("singleStep",), "reset": ("minimum",)}.get(sl["name"], ())
            if self.notify_after is not None and any(self.is_bound(i, q) for q in implicit):
                p = r.choice([p for p in sc.all_props(c) if p["layer"] == 0])
                return ["setprop", ["obj", i], p["name"], self.hval(TY_OF[p["type"]])]
            return ["call", ["obj", i], sl["name"], []]
        if not targets:
            k = "log"
        if k == "set":
            i, c = r.choice(targets)
            use_this = this_ok and r.chance(0.25)
            if use_this:
                i, c = None, self.owner_cls
            props = [("intVal", "int"), ("flag", "bool"), ("text", "string"), ("uintVal", "uint"), ("realVal", "double"), ("mode", "mode"), ("opts", "opts"), ("items", "strlist")]
            if c == "SimPanel":
                props.append(("level", "int"))
            p, ty = r.choice(props)
            if ty == "uint":
                v = ["cast", "uint", ["lit", "int", r.choice([0, 1, 5, 9])]]
            else:
                v = self.hval(ty) if ty in ("int", "bool", "string", "double") else self.lit(ty)
            tgt = None if i is None else ["obj", i]
            return ["setprop", tgt, p, v]
        if k == "call":
            i, c = r.choice(targets)
            if this_ok and r.chance(0.25):
                i, c = None, self.owner_cls
            slots = [("bump", ["int"]), ("say", ["string"]), ("reset", []), ("store", ["int", "string"])]
            if c == "SimPanel":
                slots.append(("lower", []))
            m, ats = r.choice(slots)
            tgt = None if i is None else ["obj", i]
            return ["call", tgt, m, [self.hval(t) for t in ats]]
        lv = r.choice(["debug", "debug2", "info", "warning", "critical"])
        n = r.randint(1, 3)
        args = [self.hval(r.choice(["int", "string", "bool", "double"])) for _ in range(n)]
        level = {"debug2": "debug"}.get(lv, lv)
        return ["log", level, args, lv]

    def read_write_read(self):
        """B.q is read, then a source that B.q's binding depends on is written (the binding runs inside the setter), then
        B.q is read again in the same straight-line code: the second read must see the new value"""
        r = self.r
        cands = []
        named = dict(self.named)
        for o in self.objs:
            if not o.get("id") or o["id"] not in named:
                continue
            for b in o["bindings"]:
                if b.get("sub"):
                    continue
                pd = sc.find_prop(o["cls"], b["target"])
                ty = TY_OF.get(pd["type"]) if pd else None
                if ty not in ("int", "bool", "string"):
                    continue
                deps = []

                def walk(x):
                    if isinstance(x, dict):
                        for v in x.values():
                            walk(v)
                    elif isinstance(x, list):
                        if len(x) == 3 and x[0] == "prop" and isinstance(x[1], list) and len(x[1]) == 2 and x[1][0] == "obj" and x[1][1] in named:
                            sp = sc.find_prop(named[x[1][1]], x[2])
                            if sp and sp["layer"] == 0 and TY_OF.get(sp["type"]) in ("int", "bool", "string"):
                                deps.append((x[1][1], x[2], TY_OF[sp["type"]]))
                        for v in x:
                            walk(v)
                walk(b["body"])
                for d in deps:
                    cands.append((o["id"], b["target"], ty, d))
        if not cands:
            return None
        bo, bq, ty, (ao, ap, aty) = r.choice(cands)
        rd = ["prop", ["obj", bo], bq]
        src = {"int": "intVal", "bool": "flag", "string": "text"}[ty]
        sinks = [i for i, c in self.named if c in ("SimWidget", "SimPanel") and not (i == ao and src == ap)]
        if not sinks:
            return None
        cur = ["prop", ["obj", ao], ap]
        new = {"bool": ["un", "!", cur], "int": ["bin", "int", "+", cur, ["lit", "int", 1]], "string": ["bin", "string", "+", cur, ["lit", "string", "~"]]}[aty]
        first = ["setprop", ["obj", r.choice(sinks)], src, rd] if r.chance(0.6) else ["log", "info", [rd], "info"]
        last = ["setprop", ["obj", r.choice(sinks)], src, rd] if r.chance(0.7) else ["log", "warning", [rd], "warning"]
        return [first, ["setprop", ["obj", ao], ap, new], last]

    def handler_stmts(self, n):
        r = self.r
        out = []
        if self.notify_after is None and r.chance(0.3):
            rwr = self.read_write_read()
            if rwr:
                out += rwr
        for _ in range(n):
            k = r.weighted([(6, "plain"), (2, "if"), (1, "switch"), (1, "let"), (1, "return")])
            if k == "plain":
                out.append(self.handler_stmt())
            elif k == "if":
                out.append(["if", self.hval("bool"), [self.handler_stmt() for _ in range(r.randint(1, 2))],
                            ([self.handler_stmt()] if r.chance(0.5) else None)])
            elif k == "switch":
                d = self.hval("int")
                clauses = []
                for cv in r.sample([0, 1, 2, 3, 5], r.randint(1, 3)):
                    body = [self.handler_stmt()]
                    if r.chance(0.7):
                        body.append(["break"])
                    clauses.append([["lit", "int", cv], body])
                if r.chance(0.6):
                    clauses.insert(r.randint(0, len(clauses)), [None, [self.handler_stmt()] + ([["break"]] if r.chance(0.5) else [])])
                out.append(["switch", d, clauses])
            elif k == "let":
                self.locals_ctr += 1
                v = "h%d" % self.locals_ctr
                out.append(["let", v, self.hval("int")])
                tg = [i for i, c in self.named if self.notify_after is None or i in self.notify_after]
                if tg:
                    out.append(["setprop", ["obj", r.choice(tg)], "intVal", ["bin", "int", "+", ["local", v], ["lit", "int", 1]]])
                else:
                    out.append(["log", "debug", [["local", v]], "debug"])
            else:
                out.append(["if", self.hval("bool"), [["return", None]], None])   # early return skips the rest
        return out

    # ---- whole document
    def document(self, n_objects=None, n_bindings=None, with_handlers=True, type_name="Doc", handler_p=0.45, max_handlers=2, with_real=True):
        r = self.r
        n = n_objects or r.randint(3, 7)
        root_cls = r.weighted([(4, "QWidget"), (3, "QDialog"), (3, "SimPanel")])
        root = {"cls": root_cls, "id": "root", "consts": [], "bindings": [], "handlers": []}
        self.objs = []
        self.named = []
        for k in range(n):
            cls = r.weighted([(7, "SimWidget"), (3, "SimPanel")])
            oid = "w%d" % (k + 1) if (k < 2 or r.chance(0.8)) else None
            o = {"cls": cls, "id": oid, "consts": [], "bindings": [], "handlers": []}
            self.objs.append(o)
            if oid:
                self.named.append((oid, cls))
        if r.chance(0.25):
            # an explicit id that is exactly the name qmluic generates for anonymous objects of that class, followed by
            # anonymous objects of the class: the generated names must steer around it, for every later object
            cls = r.choice(["SimWidget", "SimPanel"])
            base = cls[0].lower() + cls[1:]
            oid = base + r.choice(["", "1", "1"])
            self.objs.append({"cls": cls, "id": oid, "consts": [], "bindings": [], "handlers": []})
            self.named.append((oid, cls))
            for _ in range(r.randint(2, 3)):
                self.objs.append({"cls": cls, "id": None, "consts": [], "bindings": [], "handlers": []})
        if root_cls == "SimPanel":
            self.named.append(("root", "SimPanel"))
        # objects of real Qt classes (read from the working tree's metatypes): real overload sets, isXxx() getters, clones
        self.real_named = []
        real_objs = []
        avail = [c["name"] for c in sc.real_classes() if c["name"] in ("QCheckBox", "QPushButton", "QLineEdit", "QSpinBox", "QDoubleSpinBox", "QSlider", "QLabel", "QProgressBar")]
        if avail and with_real:
            short = {"QCheckBox": "chk", "QPushButton": "btn", "QLineEdit": "edit", "QSpinBox": "spin", "QDoubleSpinBox": "dspin", "QSlider": "slider", "QLabel": "label", "QProgressBar": "bar"}
            for k in range(r.weighted([(3, 0), (3, 1), (3, 2), (2, 3)])):
                cls = r.choice(avail)
                oid = "%s%d" % (short[cls], k + 1)
                o = {"cls": cls, "id": oid, "consts": [], "bindings": [], "handlers": []}
                real_objs.append(o)
                self.real_named.append((oid, cls))
                self.objs.insert(r.randint(0, len(self.objs)), o)
        # constants for some sources (end up in the .ui and are applied by the stand-in uic)
        for o in real_objs:
            cands = [p for p in sc.all_props(o["cls"]) if p["layer"] in (0, 2) and p["name"] not in ("default", "down", "modified")]
            for p in r.sample(cands, min(len(cands), r.randint(0, 3))):
                ty = TY_OF[p["type"]]
                o["consts"].append([p["name"], self.lit(ty)])
        for o in [x for x in self.objs if x not in real_objs]:
            for p, ty in (("intVal", "int"), ("text", "string"), ("flag", "bool"), ("mode", "mode"), ("opts", "opts"), ("items", "strlist"), ("realVal", "double"), ("uintVal", "uint")):
                if r.chance(0.25):
                    v = self.lit(ty)
                    if ty == "opts" and r.chance(0.5):
                        v = ["bin", "opts", "|", ["enum", "SimWidget.OptA"], ["enum", "SimWidget.OptC"]]
                    if ty == "strlist":
                        v = ["list", "string", [["lit", "string", "c%d" % i] for i in range(r.randint(1, 3))]]
                    o["consts"].append([p, v])
        # layer 1 first (so that layer 2 knows which objects bind midPeer), then layer 2
        total = r.randint(4, 14) if n_bindings is None else n_bindings
        for o in self.objs:
            if not o["id"] or o in real_objs or total == 0:
                continue
            self.cur_owner, self.owner_cls, self.cur_layer = o["id"], o["cls"], 1
            for ty, props in sorted(MID_TARGETS.items()):
                for p in props:
                    if r.chance(0.3):
                        if ty == "pw":
                            # never null: built from named objects only
                            a, _ = self.obj_widget(0)
                            b, _ = self.obj_widget(0)
                            # a bare object reference is a constant (it goes to the .ui as <cstring>), so always read something
                            e = ["tern", self.dyn_bool(), a, b]
                            o["bindings"].append({"target": p, "sub": None, "layer": 1, "body": {"kind": "expr", "expr": e}})
                            self.has_midpeer.add(o["id"])
                        else:
                            o["bindings"].append({"target": p, "sub": None, "layer": 1, "body": self.body(ty, r.randint(1, 2))})
        count = sum(len(o["bindings"]) for o in self.objs)
        guard = 0
        while count < total and guard < 200:
            guard += 1
            o = r.choice(self.objs + ([root] if r.chance(0.15) else []))
            is_root = o is root
            self.cur_owner, self.owner_cls, self.cur_layer = o.get("id"), o["cls"], 2
            if is_root and root_cls != "SimPanel":
                tys = ROOT_TARGETS
            elif o in real_objs:
                tys = {k: list(v) for k, v in ROOT_TARGETS.items()}
                for p in sc.all_props(o["cls"]):
                    if p["layer"] == 2 and p["name"] not in ("default", "down", "modified"):
                        tys.setdefault(TY_OF[p["type"]], []).append(p["name"])
            else:
                tys = dict(TARGETS)
                if o["cls"] == "SimPanel":
                    tys = dict(tys, int=tys["int"] + ["outLevel"])
            ty = r.choice(sorted(tys))
            p = r.choice(tys[ty])
            if any(b["target"] == p for b in o["bindings"]) or any(c[0] == p for c in o["consts"]):
                continue
            if not is_root and o not in real_objs and r.chance(0.15) and not any(b["target"] == "font" for b in o["bindings"]):
                # grouped gadget binding mixing constant and dynamic members
                # 1-4 dynamic members; names of equal length (family / italic / weight, pointSize / underline) on purpose
                members = [("family", "string"), ("pointSize", "int"), ("bold", "bool"), ("italic", "bool"), ("weight", "int"), ("underline", "bool"), ("kerning", "bool")]
                chosen = r.sample(members, r.randint(1, 4))
                for mname, mty in chosen:
                    if mty == "int":
                        e = ["bin", "int", "+", ["bin", "int", "&", self.guarded("int", 0), ["lit", "int", 15]], ["lit", "int", 30]]
                    elif mty == "bool":
                        e = self.gen("bool", 1)
                        if not has_read(e):
                            e = self.dyn_bool()
                    else:
                        e = self.gen("string", 1)
                        if not has_read(e):
                            e = ["bin", "string", "+", self.guarded("string", 0), ["lit", "string", "!"]]
                    o["bindings"].append({"target": "font", "sub": mname, "layer": 2, "body": {"kind": "expr", "expr": e}})
                rest = [m for m in members if m not in chosen and m[1] == "bool"]
                if rest and r.chance(0.5):
                    o["consts"].append(["font." + rest[0][0], ["lit", "bool", True]])
                count += 1
                continue
            o["bindings"].append({"target": p, "sub": None, "layer": 2, "body": self.body(ty, r.randint(1, 3))})
            count += 1
        if with_handlers:
            for o in self.objs + ([root] if root_cls in ("SimPanel", "QDialog") else []):
                if r.chance(handler_p):
                    for _ in range(r.randint(1, max_handlers)):
                        h = self.gen_handler(o, o["cls"])
                        if h:
                            o["handlers"].append(h)
        nm = r.randint(1, 3)
        nx = r.randint(1, 2)
        externals = [{"name": "m%d" % (i + 1), "cls": "SimModel"} for i in range(nm)] + [{"name": "x%d" % (i + 1), "cls": r.choice(["SimWidget", "SimWidget", "SimPanel"])} for i in range(nx)]
        doc = {"type_name": type_name, "root": root, "objects": self.objs, "externals": externals,
               "pins": sorted([list(p) for p in self.pins])}
        doc["qml"] = render_doc(doc)
        return doc


# ---------------------------------------------------------------- documents built for C16

def _mk_doc(type_name, root_cls, objs, externals=None, pins=None):
    doc = {"type_name": type_name, "root": {"cls": root_cls, "id": "root", "consts": [], "bindings": [], "handlers": []},
           "objects": objs, "externals": externals or [{"name": "m1", "cls": "SimModel"}, {"name": "x1", "cls": "SimWidget"}],
           "pins": sorted([list(p) for p in (pins or [])])}
    doc["qml"] = render_doc(doc)
    return doc


def _obj(oid, cls="SimWidget"):
    return {"cls": cls, "id": oid, "consts": [], "bindings": [], "handlers": []}


def _b(target, expr, layer=2, sub=None):
    return {"target": target, "sub": sub, "layer": layer, "body": expr if isinstance(expr, dict) else {"kind": "expr", "expr": expr}}


def doc_cascade(rng, type_name="Doc"):
    """33-70 bindings in a loop-free cascade of depth up to 40: w[k].mid1 reads w[k-1].mid1, so that bindings
    with indices on both sides of every 32-bit word boundary are on the stack together."""
    n = rng.randint(20, 48)
    objs = []
    for k in range(n):
        o = _obj("w%02d" % k, rng.choice(["SimWidget", "SimWidget", "SimPanel"]))
        if k == 0:
            o["bindings"].append(_b("mid1", ["bin", "int", "+", ["this_prop", "intVal"], ["lit", "int", 1]], 1))
        else:
            prev = ["obj", "w%02d" % (k - 1)]
            e = ["bin", "int", "+", ["prop", prev, "mid1"], ["lit", "int", 1]]
            if rng.chance(0.3):
                e = ["tern", ["prop", ["obj", "w00"], "flag"], e, ["prop", prev, "mid1"]]
            o["bindings"].append(_b("mid1", e, 1))
        if rng.chance(0.6):
            o["bindings"].append(_b("out1", ["bin", "int", "*", ["prop", ["obj", "w%02d" % rng.randint(0, k)], "mid1"], ["lit", "int", 2]]))
        if rng.chance(0.3):
            o["bindings"].append(_b("outText", ["arg", ["lit", "string", "n=%1"], ["prop", ["obj", "w%02d" % rng.randint(0, k)], "mid1"]]))
        if rng.chance(0.25):
            o["bindings"].append(_b("midText", ["bin", "string", "+", ["prop", ["obj", "w00"], "text"], ["lit", "string", "-%d" % k]], 1))
        if rng.chance(0.2):
            o["bindings"].append(_b("outFlag", ["bin", "int", ">", ["prop", ["obj", "w%02d" % k], "mid1"], ["lit", "int", k // 2]]))
        objs.append(o)
    return _mk_doc(type_name, "QWidget", objs)


def doc_observers(rng, type_name="Doc"):
    """functions with 2-5 property observers, in one block and across blocks"""
    n = rng.randint(3, 5)
    objs = [_obj("w%d" % (k + 1)) for k in range(n)]
    pins = set()
    for o in objs:
        k = rng.randint(2, 5)
        terms = []
        for j in range(k):
            base = "w%d" % rng.randint(1, n)
            pins.add((base, "peer"))
            t = ["prop", ["prop", ["obj", base], "peer"], "intVal"]
            if rng.chance(0.5):
                # the observe statement is only reached while a flag holds: the observer goes stale meanwhile
                t = ["tern", ["prop", ["obj", "w%d" % rng.randint(1, n)], "flag"], t, ["lit", "int", j]]
            terms.append(t)
        e = terms[0]
        for t in terms[1:]:
            e = ["bin", "int", "+", e, t]
        o["bindings"].append(_b("out1", e))
        if rng.chance(0.7):
            a, b = "w%d" % rng.randint(1, n), "w%d" % rng.randint(1, n)
            pins.update([(a, "peer"), (b, "peer"), (a, "model"), ("*", "peer")])
            # observers in several blocks of one function; chain of two hops in one of them
            blk = {"kind": "block", "stmts": [
                ["let", "p", ["prop", ["obj", a], "peer"]],
                ["if", ["prop", ["obj", b], "flag"], [["assign", "p", ["prop", ["obj", b], "peer"]]], None],
                ["if", ["bin", "int", ">", ["prop", ["local", "p"], "intVal"], ["lit", "int", 0]],
                 [["return", ["bin", "int", "+", ["prop", ["prop", ["local", "p"], "peer"], "intVal"], ["prop", ["prop", ["obj", a], "model"], "count"]]]], None],
                ["return", ["prop", ["local", "p"], "intVal"]]]}
            o["bindings"].append(_b("out2", blk))
        if rng.chance(0.5):
            o["bindings"].append(_b("font", ["prop", ["prop", ["obj", "w1"], "peer"], "text"], sub="family"))
            o["bindings"].append(_b("font", ["bin", "int", "+", ["prop", ["prop", ["obj", "w2"], "peer"], "intVal"], ["lit", "int", 40]], sub="pointSize"))
            pins.update([("w1", "peer"), ("w2", "peer")])
    return _mk_doc(type_name, "QWidget", objs, pins=pins)


def doc_names(rng, type_name="Doc"):
    """identifier pairs whose capitalised concatenations coincide (foo.barBaz / fooBar.baz -> FooBarBaz, FooBarBaz1) together
    with a third binding whose own bare prefix IS that numbered name (foo.barBaz1 or fooBar.baz1 -> FooBarBaz1); in every
    document order, since which name is handed out first depends on it"""
    ids = ["foo", "fooBar"] + (["fooBarBaz"] if rng.chance(0.4) else [])
    if rng.chance(0.5):
        rng.shuffle(ids)
    objs = {i: _obj(i) for i in ids}
    src = ["prop", ["obj", "foo"], "intVal"]
    k = [0]

    def bind(i, p):
        if i in objs and not any(b["target"] == p for b in objs[i]["bindings"]):
            k[0] += 1
            objs[i]["bindings"].append(_b(p, ["bin", "int", "+", src, ["lit", "int", k[0]]]))
    bind("foo", "barBaz")
    bind("fooBar", "baz")
    third = rng.choice([("fooBar", "baz1"), ("foo", "barBaz1"), ("fooBar", "baz1")])
    bind(*third)
    for i, p in (("foo", "baz"), ("foo", "barBaz1"), ("fooBar", "barBaz"), ("fooBar", "baz1"), ("fooBarBaz", "out1"), ("fooBarBaz", "z"), ("fooBarBaz", "z1"), ("foo", "z1")):
        if rng.chance(0.3):
            bind(i, p)
    for i in ids:
        if rng.chance(0.4):
            objs[i]["handlers"].append({"signal": "fired", "sigkey": "fired()", "on": "onFired", "params": [], "form": "expr", "argtypes": [],
                                        "body": {"kind": "expr_stmt", "stmt": ["call", ["obj", "foo"], "bump", [["lit", "int", k[0] + 1]]]}})
    return _mk_doc(type_name, "QWidget", [objs[i] for i in ids])


LITERAL_CLASSES = {
    "ascii": ["plain text", "a+b=c", "semi;colon", "{braces}", "#hash", "tab\there"],
    "quotes": ['say "hi"', "it's", 'back\\slash', 'mix "\\" end', "trailing\\"],
    "whitespace": ["line\nbreak", "cr\rlf\n", "tab\tand\nnewline"],
    "control": ["bell\x07", "nul\x00x", "esc\x1b[0m", "unit\x1fsep", "del\x7f", "\x01\x02"],
    "nul-then-digit": ["a\x001", "\x007"],
    "non-ascii": ["café", "über", "日本語", "emoji \U0001f600", "€ 5"],
    "combining": ["é", "äö", "x⃗"],
    "percent": ["100%", "%1 of %2", "%%"],
    "trigraph-like": ["what??/", "??=", "a??)b"],
}


def doc_literals(rng, type_name="Doc"):
    """string literals of every class, in dynamic bindings with trivially static dependencies"""
    objs = [_obj("w1"), _obj("w2")]
    classes = rng.sample(sorted(LITERAL_CLASSES), rng.randint(1, 3))
    used = []
    k = 0
    for c in classes:
        for lit in rng.sample(LITERAL_CLASSES[c], min(2, len(LITERAL_CLASSES[c]))):
            k += 1
            tgt = ["outText", "outText2", "midText"][k % 3]
            o = objs[(k // 3) % 2]
            if any(b["target"] == tgt for b in o["bindings"]):
                continue
            other = ["lit", "string", "k%d" % k]
            form = rng.below(4)
            if form == 2 and "\x00" in lit:
                form = 0   # translate() takes const char *: an embedded NUL ends the text by Qt's API, not by qmluic's doing
            if form == 0:
                e = ["tern", ["prop", ["obj", "w1"], "flag"], ["lit", "string", lit], other]
            elif form == 1:
                e = ["bin", "string", "+", ["prop", ["obj", "w1"], "text"], ["lit", "string", lit]]
            elif form == 2:
                e = ["tern", ["prop", ["obj", "w1"], "flag"], ["tr", lit], other]
            else:
                e = ["sub", ["list", "string", [["lit", "string", lit], ["prop", ["obj", "w2"], "text"]]], ["lit", "int", 0]]
            o["bindings"].append(_b(tgt, e, 1 if tgt == "midText" else 2))
            used.append([c, lit])
    doc = _mk_doc(type_name, "QWidget", objs)
    doc["literal_classes"] = classes
    return doc


def doc_operators(rng, type_name="Doc", everything=False):
    """operators printed verbatim for whatever operand types the checker admitted"""
    objs = [_obj("w1"), _obj("w2"), _obj("w3"), _obj("w4")]
    w2 = ["obj", "w2"]
    pool = [
        # the same calls with the operands the other way round (what the emitter does must not depend on which comes first)
        ("outU", ["max", ["lit", "int", 3], ["prop", w2, "uintVal"]], "minmax-literal-uint"),
        ("outU", ["min", ["lit", "int", 100], ["cast", "uint", ["prop", w2, "intVal"]]], "minmax-literal-uint-cast"),
        ("outReal", ["min", ["lit", "double", 1.5], ["prop", w2, "realVal"]], "minmax-literal-double"),
        ("out1", ["max", ["lit", "int", 2], ["prop", w2, "intVal"]], "minmax-literal-int"),
        ("outReal", ["bin", "double", "%", ["prop", w2, "realVal"], ["lit", "double", 2.0]], "double-rem"),
        ("outU", ["max", ["prop", w2, "uintVal"], ["lit", "int", 3]], "minmax-uint-literal"),
        ("outU", ["min", ["prop", w2, "uintVal"], ["lit", "int", 3]], "minmax-uint-literal"),
        ("outReal", ["max", ["prop", w2, "realVal"], ["lit", "double", 1.5]], "minmax-double"),
        ("out1", ["bin", "int", "%", ["prop", w2, "intVal"], ["lit", "int", 3]], "int-rem"),
        ("outU", ["bin", "uint", "%", ["prop", w2, "uintVal"], ["lit", "uint", 3]], "uint-rem"),
        ("outFlag", ["bin", "bool", "^", ["prop", w2, "flag"], ["prop", ["obj", "w1"], "flag"]], "bool-xor"),
        ("outOpts", ["bin", "opts", "&", ["un", "~", ["prop", w2, "opts"]], ["enum", "SimWidget.OptA"]], "flags-not-and"),
        ("out2", ["cast", "int", ["prop", w2, "realVal"]], "double-to-int"),
        ("outText", ["arg", ["arg", ["lit", "string", "%1/%2"], ["prop", w2, "intVal"]], ["prop", w2, "uintVal"]], "arg-chain"),
        ("outReal", ["bin", "double", "/", ["prop", w2, "realVal"], ["lit", "double", 4.0]], "double-div"),
        ("out1", ["un", "-", ["cast", "int", ["prop", w2, "flag"]]], "neg-bool-cast"),
        ("outItems", ["tern", ["prop", w2, "flag"], ["list", "string", []], ["prop", w2, "items"]], "empty-list"),
    ]
    chosen = rng.sample(pool, len(pool) if everything else rng.randint(2, 5))
    tags = []
    for tgt, e, tag in chosen:
        free = [o for o in objs if not any(b["target"] == tgt for b in o["bindings"])]
        if not free:
            continue
        owner = free[0]
        owner["bindings"].append(_b(tgt, e))
        tags.append(tag)
    if everything or rng.chance(0.5):
        objs[1]["handlers"].append({"signal": "fired", "sigkey": "fired()", "on": "onFired", "params": [], "form": "block", "argtypes": [],
                                    "body": {"kind": "block", "stmts": [["log", "info", [["max", ["prop", ["obj", "w1"], "intVal"], ["lit", "int", 2]]], "info"]]}})
    doc = _mk_doc(type_name, "QWidget", objs)
    doc["operator_tags"] = tags
    return doc


def doc_facilities(rng, type_name="Doc"):
    """each facility that needs an #include (std::max/min -> <algorithm>, std::fmod -> <cmath>, qDebug -> <QtDebug>)
    is used in exactly one kind of position: a top-level binding, a gadget member, a handler, or not at all"""
    objs = [_obj("w1"), _obj("w2"), _obj("w3", "SimPanel")]
    w2 = ["obj", "w2"]
    pos = {f: rng.choice(["top", "gadget", "handler", "absent", "gadget"]) for f in ("minmax", "fmod", "log")}
    if all(p == "absent" for p in pos.values()):
        pos["minmax"] = "gadget"
    mm = [rng.choice(["max", "min"]), ["prop", w2, "intVal"], ["lit", "int", 7]]
    fm = ["bin", "double", "%", ["prop", w2, "realVal"], ["lit", "double", 2.0]]
    lg = ["log", rng.choice(["debug", "info", "warning", "critical"]), [["lit", "string", "fac"], ["prop", w2, "intVal"]]]
    lg.append({"debug": "debug", "info": "info", "warning": "warning", "critical": "critical"}[lg[1]])
    o = objs[0]
    gadget_used = False
    hstmts = []
    if pos["minmax"] == "top":
        o["bindings"].append(_b("out1", mm))
    elif pos["minmax"] == "gadget":
        o["bindings"].append(_b("font", ["bin", "int", "+", mm, ["lit", "int", 40]], sub="pointSize"))
        gadget_used = True
    elif pos["minmax"] == "handler":
        hstmts.append(["setprop", ["obj", "w3"], "intVal", mm])
    if pos["fmod"] == "top":
        o["bindings"].append(_b("outReal", fm))
    elif pos["fmod"] == "gadget":
        o["bindings"].append(_b("font", ["bin", "double", ">=", fm, ["lit", "double", 1.0]], sub="bold"))
        gadget_used = True
    elif pos["fmod"] == "handler":
        hstmts.append(["setprop", ["obj", "w3"], "realVal", fm])
    if pos["log"] == "top":
        o["bindings"].append(_b("outFlag", {"kind": "block", "stmts": [lg, ["return", ["bin", "int", ">", ["prop", w2, "intVal"], ["lit", "int", 3]]]]}))
    elif pos["log"] == "gadget":
        o["bindings"].append(_b("font", {"kind": "block", "stmts": [lg, ["return", ["bin", "int", ">", ["prop", w2, "intVal"], ["lit", "int", 3]]]]}, sub="italic"))
        gadget_used = True
    elif pos["log"] == "handler":
        hstmts.append(lg)
    if hstmts:
        objs[1]["handlers"].append({"signal": "fired", "sigkey": "fired()", "on": "onFired", "params": [], "form": "block", "argtypes": [],
                                    "body": {"kind": "block", "stmts": hstmts}})
    if not gadget_used and rng.chance(0.5):
        o["bindings"].append(_b("font", ["prop", w2, "text"], sub="family"))
    objs[2]["bindings"].append(_b("outLevel", ["bin", "int", "+", ["this_prop", "level"], ["prop", w2, "intVal"]]))
    doc = _mk_doc(type_name, "QWidget", objs)
    doc["facility_positions"] = pos
    return doc

"""World-B build pipeline: QML -> real qmluic -> .ui + uisupport_*.h -> stand-in uic ->
per-document driver TU compiled against the runtime model -> executable run once per history."""
import hashlib
import os
import shutil
import subprocess

from ..common import runner
from ..cliworld import kernel
from . import simclasses as sc, uicsim

HERE = os.path.dirname(os.path.abspath(__file__))
INCLUDE = os.path.join(HERE, "include")
GEN = os.path.join(runner.TARGET, "qtworld", "gen")
CXX = "clang++-14" if shutil.which("clang++-14") else "g++"
SAN_FLAGS = ["-std=c++17", "-O0", "-fsanitize=address,undefined", "-fno-sanitize-recover=undefined", "-w"]

RUNTIME_CPP = '''// compiled once by setup: the driver runtime and the reflection generated from simclasses.py
#include "simdispatch.h"
int simRunHistoryExport(const std::string &path, SimDocHooks &doc) { return simRunHistory(path, doc); }
void simRegisterAllSignalsExport() { simRegisterAllSignals(); }
'''


def _write_if_changed(path, text):
    try:
        if open(path, encoding="utf-8").read() == text:
            return False
    except FileNotFoundError:
        pass
    with open(path + ".tmp%d" % os.getpid(), "w", encoding="utf-8") as f:
        f.write(text)
    os.replace(path + ".tmp%d" % os.getpid(), path)
    return True


def setup(repo=runner.DEFAULT_REPO):
    """generate the metatypes JSON, class stubs and reflection; precompile the runtime object"""
    sc.load_real(os.path.join(repo, "contrib/metatypes"))
    os.makedirs(GEN, exist_ok=True)
    ch = False
    ch |= _write_if_changed(os.path.join(GEN, "sim_metatypes.json"), sc.metatypes_json())
    ch |= _write_if_changed(os.path.join(GEN, "simclasses.h"), sc.cxx_stubs())
    ch |= _write_if_changed(os.path.join(GEN, "simdispatch.h"), sc.cxx_dispatch())
    ch |= _write_if_changed(os.path.join(GEN, "simruntime.cpp"), RUNTIME_CPP)
    obj = os.path.join(GEN, "simruntime.o")
    newest = max(os.path.getmtime(os.path.join(INCLUDE, f)) for f in os.listdir(INCLUDE))
    if ch or not os.path.exists(obj) or os.path.getmtime(obj) < newest:
        r = subprocess.run([CXX] + SAN_FLAGS + ["-I", INCLUDE, "-I", GEN, "-c", os.path.join(GEN, "simruntime.cpp"), "-o", obj + ".new"],
                           capture_output=True, text=True)
        if r.returncode != 0:
            raise runner.HarnessError("runtime model does not compile:\n" + r.stderr[-3000:])
        os.replace(obj + ".new", obj)
    return GEN


def sim_metatypes():
    return os.path.join(GEN, "sim_metatypes.json")


COMPANION = """import qmluic.QtWidgets
QDialog {
    id: companionRoot
    QVBoxLayout {
        QCheckBox { id: companionCheck; text: "c" }
        QLabel { text: companionCheck.checked ? "on" : "off"; enabled: companionCheck.checked }
        QPushButton { onClicked: companionRoot.accept() }
    }
}
"""


def translate(env, qml_text, type_name, workdir, no_dyn=False, hash_seed=1, incremental=True, prev_qml=None, wfault=None, doc_first=False):
    """run the real binary on one document -> dict(exit, stderr, ui, header).
    The header is emitted the way a build system gets it: by the second of two invocations of one process over several
    sources, where an earlier-named source (a fixed companion) is already up to date on disk."""
    os.makedirs(workdir, exist_ok=True)
    src = os.path.join(workdir, type_name + ".qml")
    with open(src, "w", encoding="utf-8") as f:
        f.write(prev_qml if prev_qml is not None else qml_text)
    low = type_name.lower()
    argv = ["generate-ui", "--foreign-types", env.metatypes, "--foreign-types", sim_metatypes()]
    if no_dyn:
        argv.append("--no-dynamic-binding")
    if incremental:
        with open(os.path.join(workdir, "Companion0.qml"), "w", encoding="utf-8") as f:
            f.write(COMPANION)
        # first build: the companion alone (only the document's own file may not exist yet for discovery to be the same:
        # it is written above, so both runs see the same directory)
        kernel.run(env, workdir, argv + ["Companion0.qml"], hash_seed=hash_seed, dirent_seed=1, io_dir=os.path.join(workdir, "io"))
        if not doc_first:
            argv += ["Companion0.qml"]
    argv.append(type_name + ".qml")
    if incremental and doc_first:
        argv.append("Companion0.qml")     # the document is named first, the (valid, up to date) companion last
    prev = None
    if prev_qml is not None:
        # the earlier version of the document is translated first; then the document replaces it and is translated
        # over whatever that left
        r0 = kernel.run(env, workdir, argv, hash_seed=hash_seed, dirent_seed=1, io_dir=os.path.join(workdir, "io"))
        prev = {"exit": r0.exit_status, "ui": None, "header": None}
        for key, fn in (("ui", low + ".ui"), ("header", "uisupport_" + low + ".h")):
            p = os.path.join(workdir, fn)
            if os.path.exists(p):
                prev[key] = open(p, encoding="utf-8", errors="replace").read()
        with open(src, "w", encoding="utf-8") as f:
            f.write(qml_text)
    faulted = None
    if wfault is not None:
        # a write of an output fails (or is cut short and then fails) in the invocation that emits the header: the run may
        # fail - then the build runs it again - but what a run that says 0 leaves behind is what gets compiled and driven
        import shutil
        import subprocess
        twin = workdir.rstrip("/") + "~"
        if os.path.exists(twin):
            shutil.rmtree(twin)
        subprocess.run(["cp", "-a", workdir, twin], check=True)
        g = kernel.run(env, twin, argv, hash_seed=hash_seed, dirent_seed=1, io_dir=os.path.join(twin, "io"))
        shutil.rmtree(twin)
        pick, kind, n = wfault
        cands = [c for c in g.calls if c.name == "write" and c.is_mutation() and (c.fdpath or "").startswith(twin + "/") and (c.length or 0) > 1]
        if cands:
            c = cands[pick % len(cands)]
            if kind == "SHORT_THEN_ENOSPC":
                faults = [(c.idx, "SHORT_WRITE", max(1, min(n, c.length - 1))), (c.idx + 1, "ERR", "ENOSPC")]
            else:
                faults = [(c.idx, "ERR", kind)]
            fr = kernel.run(env, workdir, argv, hash_seed=hash_seed, dirent_seed=1, faults=faults, io_dir=os.path.join(workdir, "io"))
            faulted = {"exit": fr.exit_status, "fired": sum(1 for x in fr.calls if x.fault), "kind": kind}
    if faulted is not None and faulted["exit"] == 0:
        res = fr          # the run said 0: a build goes on with what it left
    else:
        res = kernel.run(env, workdir, argv, hash_seed=hash_seed, dirent_seed=1, io_dir=os.path.join(workdir, "io"))
    out = {"exit": res.exit_status, "signal": res.signal, "stderr": res.stderr, "ui": None, "header": None, "prev": prev, "faulted": faulted}
    for key, fn in (("ui", low + ".ui"), ("header", "uisupport_" + low + ".h")):
        p = os.path.join(workdir, fn)
        if os.path.exists(p):
            out[key] = open(p, encoding="utf-8", errors="replace").read()
    return out


def driver_source(type_name, root_cls, root_name):
    low = type_name.lower()
    return '''// per-document driver: the generated header is included unmodified
#include "simclasses.h"
#include "simhooks.h"
#include "uisupport_%(low)s.h"
#include <memory>
int simRunHistoryExport(const std::string &path, SimDocHooks &doc);
void simRegisterAllSignalsExport();
int main(int argc, char **argv)
{
    simRegisterAllSignalsExport();
    %(root_cls)s *root = nullptr;
    Ui::%(tn)s ui;
    std::unique_ptr<UiSupport::%(tn)s> sup;
    SimDocHooks h;
    h.construct = [&] { root = new %(root_cls)s("%(root_name)s"); ui.setupUi(root); sup.reset(new UiSupport::%(tn)s(root, &ui)); };
    h.setup = [&] { sup->setup(); };
    return simRunHistoryExport(argc > 1 ? argv[1] : "history", h);
}
''' % {"low": low, "tn": type_name, "root_cls": root_cls, "root_name": root_name}


def build_driver(type_name, ui_text, header_text, workdir, syntax_compilers=()):
    """-> dict(ok, binary, info, errors:{stage: text})"""
    low = type_name.lower()
    errors = {}
    try:
        ui_h, info = uicsim.translate(ui_text)
    except Exception as e:  # malformed .ui
        return {"ok": False, "binary": None, "info": None, "errors": {"uic": "stand-in uic failed: %s" % e}}
    with open(os.path.join(workdir, "ui_%s.h" % low), "w", encoding="utf-8") as f:
        f.write(ui_h)
    # the header as written by qmluic, byte for byte
    with open(os.path.join(workdir, "uisupport_%s.h" % low), "w", encoding="utf-8") as f:
        f.write(header_text)
    drv = os.path.join(workdir, "driver.cpp")
    with open(drv, "w", encoding="utf-8") as f:
        f.write(driver_source(type_name, info["root"][1], info["root"][0]))
    inc = ["-I", INCLUDE, "-I", GEN, "-I", workdir]
    cenv = dict(os.environ, TMPDIR=workdir)   # the compilers' own temporary objects die with the case directory
    for comp, extra in syntax_compilers:
        r = subprocess.run([comp, "-std=c++17", "-fsyntax-only", "-w"] + list(extra) + inc + [drv], capture_output=True, text=True, env=cenv)
        if r.returncode != 0:
            errors["%s %s" % (comp, " ".join(extra))] = r.stderr[:4000]
    binary = os.path.join(workdir, "driver")
    r = subprocess.run([CXX] + SAN_FLAGS + inc + [drv, os.path.join(GEN, "simruntime.o"), "-o", binary], capture_output=True, text=True, env=cenv)
    if r.returncode != 0:
        errors["%s build" % CXX] = r.stderr[:4000]
        return {"ok": False, "binary": None, "info": info, "errors": errors}
    return {"ok": not errors, "binary": binary, "info": info, "errors": errors}


def run_driver(binary, history_lines, workdir, tag="h"):
    hp = os.path.join(workdir, "history-%s.txt" % tag)
    with open(hp, "w", encoding="utf-8") as f:
        f.write("\n".join(history_lines) + "\n")
    env = {"ASAN_OPTIONS": "detect_leaks=0:exitcode=44:abort_on_error=0:symbolize=0", "UBSAN_OPTIONS": "halt_on_error=1:exitcode=45:print_stacktrace=0", "PATH": "/usr/bin:/bin"}
    try:
        # bounded by the CPU time of the driver (20 s; a history takes well under one), not by wall-clock time, which depends
        # on the load of the machine; the wall-clock limit is a backstop only
        def _limit():
            import resource
            resource.setrlimit(resource.RLIMIT_CPU, (20, 21))
        r = subprocess.run([binary, hp], capture_output=True, text=True, env=env, timeout=900, errors="replace", preexec_fn=_limit)
        if r.returncode in (-24, -9):
            return {"rc": -999, "out": r.stdout, "err": "cpu bound"}
        kernel.digest_update("driver rc=%d\n%s\n%s" % (r.returncode, "\n".join(history_lines), r.stdout))
        return {"rc": r.returncode, "out": r.stdout, "err": r.stderr}
    except subprocess.TimeoutExpired as e:
        return {"rc": -999, "out": (e.stdout or b"").decode("utf-8", "replace") if isinstance(e.stdout, bytes) else (e.stdout or ""), "err": "timeout"}


def parse_observations(out):
    """driver stdout -> (list of observation dicts, abort record or None, done flag)
    observation = {"mark", "state": {obj: {prop: token}}, "trace": [entries], "conns": [(sender, signal, context, alive)], "slots", "depth"}"""
    obs = []
    cur = None
    mark = None
    abort = None
    done = False
    for line in out.splitlines():
        if line.startswith("mark "):
            mark = line[5:]
        elif line == "begin-observe":
            cur = {"mark": mark, "state": {}, "trace": [], "conns": [], "slots": 0, "depth": 0}
        elif line == "end-observe":
            obs.append(cur)
            cur = None
        elif line.startswith("ABORT "):
            parts = line.split(" ", 2)
            abort = {"cls": parts[1], "detail": parts[2] if len(parts) > 2 else ""}
        elif line == "DONE":
            done = True
        elif cur is not None:
            if line.startswith("state "):
                parts = line.split(" ", 3)
                if len(parts) != 4:
                    continue   # output cut short by a crash in the middle of an observation
                _, o, p, v = parts
                cur["state"].setdefault(o, {})[p] = v
            elif line.startswith("trace "):
                cur["trace"].append(line[6:])
            elif line.startswith("conn "):
                parts = line.split(" ")
                if len(parts) >= 5:
                    cur["conns"].append((parts[1], parts[2], parts[3], parts[4] == "1"))
            elif line.startswith("stats "):
                for kv in line.split()[1:]:
                    if "=" in kv:
                        k, v = kv.split("=", 1)
                        cur[k] = int(v) if v.isdigit() else 0
    return obs, abort, done

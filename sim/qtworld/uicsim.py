"""Stand-in for uic: reads the .ui written by qmluic and produces ui_<x>.h declaring
Ui::<X> with one member per named element, exactly as uic's naming contract, and a
setupUi() that creates the objects and applies the constant properties."""
import xml.etree.ElementTree as ET


def cstr(s):
    """C++ narrow string literal holding the UTF-8 bytes of s (3-digit octal escapes: unambiguous)"""
    out = []
    for b in s.encode("utf-8"):
        ch = chr(b)
        if b < 128 and (ch.isalnum() or ch in " _-.,:;!()[]{}<>=+*/@#$^&|~"):
            out.append(ch)
        else:
            out.append("\\%03o" % b)
    return '"' + "".join(out) + '"'


def cap(s):
    return s[0].upper() + s[1:]


def value_expr(el, ctx, unsupported):
    tag = el.tag
    if tag in ("number", "UInt", "uint", "longlong"):
        return (el.text or "0").strip() + ("u" if tag in ("UInt", "uint") else "")
    if tag == "double":
        t = (el.text or "0").strip()
        return t if any(c in t for c in ".eE") else t + ".0"
    if tag == "bool":
        return "true" if (el.text or "").strip() == "true" else "false"
    if tag == "string":
        if el.get("notr") == "true":
            return "QString(%s)" % cstr(el.text or "")
        return "QCoreApplication::translate(%s, %s)" % (cstr(ctx), cstr(el.text or ""))
    if tag in ("enum", "set"):
        return (el.text or "").strip()
    if tag == "stringlist":
        items = []
        notr = el.get("notr") == "true"
        for s in el.findall("string"):
            items.append("QString(%s)" % cstr(s.text or "") if notr else "QCoreApplication::translate(%s, %s)" % (cstr(ctx), cstr(s.text or "")))
        return "QStringList{%s}" % ", ".join(items)
    unsupported.append(tag)
    return None


def font_stmts(el, var):
    out = []
    m = {"family": ("setFamily", "s"), "pointsize": ("setPointSize", "n"), "weight": ("setWeight", "n"), "italic": ("setItalic", "b"),
         "bold": ("setBold", "b"), "underline": ("setUnderline", "b"), "strikeout": ("setStrikeOut", "b"), "kerning": ("setKerning", "b")}
    for ch in el:
        if ch.tag in m:
            fn, k = m[ch.tag]
            t = (ch.text or "").strip()
            v = "QString(%s)" % cstr(ch.text or "") if k == "s" else (t if k == "n" else ("true" if t == "true" else "false"))
            out.append("%s.%s(%s);" % (var, fn, v))
    return out


def setter_name(cls, prop):
    """uic calls the WRITE function of the property (it knows Qt's classes); so does the stand-in, from the class table"""
    try:
        from . import simclasses as sc
        p = sc.find_prop(cls, prop)
        if p and p.get("write_fn"):
            return p["write_fn"]
    except Exception:
        pass
    return "set" + cap(prop)


def translate(ui_text, header_guard_include='"simclasses.h"'):
    """-> (header text, info) ; info = {"class", "root": (name, cls), "objects": [(name, cls)], "unsupported": [...]}"""
    root = ET.fromstring(ui_text)
    cls = root.findtext("class")
    top = root.find("widget")
    objects = []
    stmts = []
    unsupported = []
    used_names = set([top.get("name")])
    renamed = []

    def props(el, var):
        for p in el.findall("property"):
            name = p.get("name")
            child = list(p)[0] if len(p) else None
            if child is None:
                continue
            if child.tag == "font":
                stmts.append("{ QFont f = %s->font(); %s %s->setFont(f); }" % (var, " ".join(font_stmts(child, "f")), var))
                continue
            e = value_expr(child, cls, unsupported)
            if e is not None:
                stmts.append("%s->%s(%s);" % (var, setter_name(el.get("class"), name), e))

    def walk(el):
        for ch in el:
            if ch.tag in ("widget", "layout"):
                name = ch.get("name")
                c = ch.get("class")
                if name in used_names:
                    # uic's Driver::unique(): "The name 'x' (Class) is already in use, defaulting to 'x1'"
                    k = 1
                    while "%s%d" % (name, k) in used_names:
                        k += 1
                    renamed.append((name, "%s%d" % (name, k)))
                    name = "%s%d" % (name, k)
                used_names.add(name)
                objects.append((name, c))
                stmts.append('%s = new %s("%s");' % (name, c, name))
                props(ch, name)
                walk(ch)
            elif ch.tag == "action":
                # uic: QAction *name = new QAction(parent); <addaction name="separator"/> becomes addSeparator() and
                # declares no member at all
                name = ch.get("name")
                used_names.add(name)
                objects.append((name, "QAction"))
                stmts.append('%s = new QAction("%s");' % (name, name))
                for p in ch.findall("property"):
                    child = list(p)[0] if len(p) else None
                    e = value_expr(child, cls, unsupported) if child is not None and child.tag in ("bool", "string", "number") else None
                    if e is not None:
                        stmts.append("%s->set%s(%s);" % (name, cap(p.get("name")), e))
            elif ch.tag == "item":
                walk(ch)

    props(top, "root")
    walk(top)
    L = ["// generated by the stand-in uic of World B", "#pragma once", "#include %s" % header_guard_include, "",
         "namespace Ui {", "class %s" % cls, "{", "public:"]
    for name, c in objects:
        L.append("    %s *%s = nullptr;" % (c, name))
    L.append("    void setupUi(%s *root)" % top.get("class"))
    L.append("    {")
    L.append("        (void)root;")
    for s in stmts:
        L.append("        " + s)
    L.append("    }")
    L.append("};")
    L.append("} // namespace Ui")
    info = {"class": cls, "root": (top.get("name"), top.get("class")), "objects": objects, "unsupported": sorted(set(unsupported)), "renamed": renamed}
    return "\n".join(L) + "\n", info

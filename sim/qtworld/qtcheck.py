"""Shared case generation and execution for the World-B checks (C02, C13, C16)."""
import copy
import os
import shutil

from ..cliworld.engine import V
from . import build, gen, model, world, simclasses as sc

TYPE_NAMES = ["Doc", "MainView", "X1", "SettingsPane"]


def _bump(d, k, n=1):
    d[k] = d.get(k, 0) + n


def gen_doc_case(rng, profile, n_hist, n_events, doc_kwargs=None, type_name=None):
    g = gen.Gen(rng.fork("doc"), profile="blocks" if profile == "bindings" and rng.chance(0.3) else "mixed")
    doc = g.document(type_name=type_name or rng.choice(TYPE_NAMES), **(doc_kwargs or {}))
    hists = []
    gen_errors = []
    for k in range(n_hist):
        s = world.Scheduler(doc, rng.fork("hist", k), profile=profile)
        try:
            il, io = s.initial()
            groups = s.history(n_events)
            hists.append({"init": {"lines": il, "ops": io}, "groups": groups})
        except model.Undefined as e:
            gen_errors.append("history %d: %s" % (k, e))
        except RuntimeError as e:
            gen_errors.append("history %d: %s" % (k, e))
    return add_predecessor({"kind": "qtdoc", "profile": profile, "doc": doc, "histories": hists, "gen_errors": gen_errors}, rng)


def add_predecessor(case, rng, p=0.6):
    """Most translations in a build tree happen over the outputs of an earlier version of the same document.  The earlier
    version here has the same objects and constants (so the same .ui) but fewer handlers and fewer dynamic bindings: the
    support header on trial is the one left on disk after translating the earlier version and then the document."""
    r = rng.fork("prev")
    if not r.chance(p):
        return case
    doc = copy.deepcopy(case["doc"])
    changed = False
    if r.chance(0.4):
        # the earlier version had MORE in it (so its header is longer than the one on trial): extra bindings on sinks the
        # document leaves alone, reading a source of the first named object
        named = [(o["id"], o["cls"]) for o in doc["objects"] if o.get("id") and o["cls"] in ("SimWidget", "SimPanel")]
        if named:
            a = ["obj", named[0][0]]
            extra = {"out1": ["bin", "int", "+", ["prop", a, "intVal"], ["lit", "int", 1]], "out2": ["bin", "int", "*", ["prop", a, "intVal"], ["lit", "int", 2]],
                     "outText": ["bin", "string", "+", ["prop", a, "text"], ["lit", "string", " (earlier version of this document)"]],
                     "outText2": ["bin", "string", "+", ["lit", "string", "earlier: "], ["prop", a, "text"]],
                     "outFlag": ["un", "!", ["prop", a, "flag"]]}
            for o in doc["objects"]:
                if o["cls"] not in ("SimWidget", "SimPanel"):
                    continue
                taken = set(b["target"] for b in o["bindings"]) | set(c[0].split(".")[0] for c in o["consts"])
                for t, e in sorted(extra.items()):
                    if t not in taken and r.chance(0.6):
                        o["bindings"].append({"target": t, "sub": None, "layer": 2, "body": {"kind": "expr", "expr": e}})
                        changed = True
            if changed:
                case["prev_qml"] = gen.render_doc(doc)
                case["prev_kind"] = "more"
                return case
    for o in [doc["root"]] + doc["objects"]:
        if o["handlers"] and r.chance(0.8):
            keep = [h for h in o["handlers"] if r.chance(0.3)]
            changed |= len(keep) != len(o["handlers"])
            o["handlers"] = keep
        keep = [b for b in o["bindings"] if r.chance(0.5)]
        # members of one grouped binding stay or go together only by chance: both shapes are legal documents
        changed |= len(keep) != len(o["bindings"])
        o["bindings"] = keep
    if changed:
        case["prev_qml"] = gen.render_doc(doc)
    return case


def name_mapping(doc, info):
    simobjs = [(n, c) for n, c in info["objects"] if c in sc.BY_NAME]
    if len(simobjs) != len(doc["objects"]):
        raise RuntimeError("object count mismatch between document and .ui: %s vs %s" % (len(doc["objects"]), simobjs))
    mapping = {}
    names = []
    for o, (n, c), gname in zip(doc["objects"], simobjs, world.doc_object_names(doc)):
        if c != o["cls"]:
            raise RuntimeError("class mismatch for %s: %s vs %s" % (n, c, o["cls"]))
        names.append(n)
        if gname != n:
            mapping[gname] = n
    return names, mapping


def target_set(w):
    return set((b["obj"], b["target"]) for b in w.bindings)


def adopt(w, state, targets):
    for o, props in state.items():
        if o not in w.props:
            continue
        for p, t in props.items():
            if (o, p) in targets and p != "font":
                continue
            w.props[o][p] = gen.untok(t)


def classify_abort(res, abort):
    """-> (cls, key, detail) for a run that did not end with DONE"""
    err = res["err"] or ""
    if abort:
        if abort["cls"] == "driver":
            raise RuntimeError("driver protocol error: " + abort["detail"])
        if abort["cls"] == "assert" and "binding loop" in abort["detail"]:
            return "abort", "abort:binding-loop-assert", "Q_ASSERT_X failed: " + abort["detail"]
        return "abort", "abort:" + abort["cls"], "%s: %s" % (abort["cls"], abort["detail"])
    if "AddressSanitizer" in err or res["rc"] == 44:
        first = [l for l in err.splitlines() if "ERROR: AddressSanitizer" in l][:1]
        kind = first[0].split("AddressSanitizer:")[1].split()[0] if first else "report"
        return "sanitizer", "sanitizer:asan-" + kind, "\n".join(err.splitlines()[:12])
    if "runtime error" in err or res["rc"] == 45:
        first = [l for l in err.splitlines() if "runtime error" in l][:1]
        return "sanitizer", "sanitizer:ubsan", first[0] if first else err[:400]
    if res["rc"] == -999:
        return "abort", "abort:timeout", "driver did not finish within 20 s of CPU time"
    return "crash", "crash:rc%d" % res["rc"], "driver ended with status %d\n%s" % (res["rc"], err[:600])


def binding_text(doc, names, b):
    for o, n in [(doc["root"], doc["root"]["id"])] + list(zip(doc["objects"], names)):
        if n == b["obj"]:
            for bb in o["bindings"]:
                if bb["target"] == b["target"] and bb.get("sub") == b.get("sub"):
                    return "%s.%s%s: %s" % (n, b["target"], ("." + b["sub"]) if b.get("sub") else "", gen.render_body(bb["body"], 0).replace("\n", " "))
    return "%s.%s" % (b["obj"], b["target"])


def check_currency(w, doc, names, ob, targets, where):
    """C02 oracle on one observation: with the observed sources, every bound target equals the
    reference value of its expression (fixed point over layers)."""
    adopt(w, ob["state"], targets)
    try:
        w.recompute()
    except model.Undefined as e:
        return None, "model-undefined: %s" % e
    out = []
    for b in w.bindings:
        st = ob["state"].get(b["obj"], {})
        t = st.get(b["target"])
        if t is None:
            out.append(V("currency", "c02:target-missing", "%s: no observed value for %s.%s" % (where, b["obj"], b["target"])))
            continue
        got = gen.untok(t)
        want = w.props[b["obj"]][b["target"]]
        if b.get("sub"):
            got = got[b["sub"]]
            want = want[b["sub"]]
        if not world.values_equal(got, want):
            out.append(V("currency", "c02:stale-binding",
                         "%s: %s\n  observed %r, reference %r" % (where, binding_text(doc, names, b), got, want), binding=[b["obj"], b["target"], b.get("sub")]))
    return out, None


def header_is_whole(text, type_name):
    """None, or why the text cannot be a complete header: braces and parentheses outside literals and comments must
    balance, the include guard must be closed, the support class must be there"""
    depth = {"{": 0, "(": 0}
    i, n = 0, len(text)
    while i < n:
        ch = text[i]
        if text.startswith("//", i):
            j = text.find("\n", i)
            i = n if j < 0 else j
            continue
        if text.startswith("/*", i):
            j = text.find("*/", i + 2)
            if j < 0:
                return "unterminated comment"
            i = j + 2
            continue
        if ch in "\"'":
            j = i + 1
            while j < n and text[j] != ch:
                if text[j] == "\\":
                    j += 1
                if j < n and text[j] == "\n":
                    break
                j += 1
            if j >= n or text[j] != ch:
                return "unterminated literal"
            i = j + 1
            continue
        if ch == "{":
            depth["{"] += 1
        elif ch == "}":
            depth["{"] -= 1
        elif ch == "(":
            depth["("] += 1
        elif ch == ")":
            depth["("] -= 1
        i += 1
    if depth["{"] != 0 or depth["("] != 0:
        return "unbalanced braces/parentheses (%+d, %+d)" % (depth["{"], depth["("])
    import re as _re
    if not _re.search(r"\bclass\s+%s\b" % _re.escape(type_name), text):
        return "no class %s" % type_name
    if len(_re.findall(r"(?m)^[ \t]*#[ \t]*if", text)) != len(_re.findall(r"(?m)^[ \t]*#[ \t]*endif", text)):
        return "conditional not closed"
    if not text.endswith("\n"):
        return "last line not terminated"
    return None


def run_doc_case(case, env, focus, stats, syntax_compilers=()):
    """-> (violations, fingerprints, sample).  focus in {"bindings", "handlers", "build"}"""
    probes = stats["probes"]
    doc = case["doc"]
    viol = []
    fps = []
    workdir = env.fresh_dir("qt")
    try:
        tr = build.translate(env, doc["qml"], doc["type_name"], workdir, prev_qml=case.get("prev_qml"), wfault=case.get("wfault"),
                             hash_seed=1 + int(hash_text(doc["qml"])[:7], 16))   # every document under another order of qmluic's hash maps
        stats["runs"] += 1
        if tr.get("faulted"):
            stats["runs"] += 2
            _bump(stats["faults_fired"], "ERR-or-short:write(output)", tr["faulted"]["fired"])
            _bump(probes, "header_emitted_after_a_write_fault_exit_%s" % ("0" if tr["faulted"]["exit"] == 0 else "nonzero"))
        if tr.get("prev") is not None:
            stats["runs"] += 1
            _bump(probes, "documents_translated_over_the_outputs_of_an_earlier_version")
            if tr["prev"]["exit"] == 0 and tr["prev"]["ui"] == tr["ui"] and tr["prev"]["header"] != tr["header"]:
                _bump(probes, "earlier_version_had_the_same_ui_and_a_different_header")
        if tr["exit"] != 0 or tr["ui"] is None or tr["header"] is None:
            _bump(probes, "generated_documents_rejected_by_qmluic")
            errs = [l for l in tr["stderr"].splitlines() if l.startswith("error")]
            stats.setdefault("notes", []).append("rejected: %s" % errs[:2])
            if any("syntax" in e for e in errs):
                stats.setdefault("notes", []).append(tr["stderr"][:700])
            return viol, fps, {"document": doc["qml"][:1500], "rejected": errs[:3]}
        _bump(probes, "documents_accepted")
        whole = header_is_whole(tr["header"], doc["type_name"])
        if whole is not None:
            # the tool said 0 but what it left is not a complete header (cut short, empty): nothing to compile
            _bump(probes, "accepted_documents_with_an_incomplete_header")
            if focus == "build":
                viol.append(V("compile", "c16:header-incomplete", "exit 0%s, but the support header left on disk is not a complete translation unit: %s\n--- last bytes\n%s"
                              % (" (under an injected %s on a write of an output)" % tr["faulted"]["kind"] if tr.get("faulted") else "", whole, tr["header"][-300:])))
            return viol, fps, {"document": doc["qml"][:1500], "incomplete_header": whole}
        b = build.build_driver(doc["type_name"], tr["ui"], tr["header"], workdir, syntax_compilers=syntax_compilers)
        stats["sim_steps"]["translation_units_compiled"] = stats["sim_steps"].get("translation_units_compiled", 0) + 1
        if focus == "build":
            for v in scan_facilities(tr["header"], doc):
                viol.append(v)
        for stage, text in b["errors"].items():
            # only the emitted header is on trial: an error located in the stand-in uic's ui_*.h or in the driver is mine
            # (an error inside the stubs, e.g. the static_assert of connect(), is provoked by the header)
            import re as _re
            locs = _re.findall(r"(\S+?):\d+:\d+: error:", text)
            if locs and all(("/ui_" in l or l.endswith("driver.cpp")) for l in locs):
                raise RuntimeError("harness: compile error outside the generated header (%s):\n%s" % (stage, text[:1500]))
        if b["errors"]:
            _bump(probes, "documents_whose_header_failed_to_compile")
            if focus == "build":
                for stage, text in sorted(b["errors"].items()):
                    key = classify_compile_error(text, tr["header"])
                    viol.append(V("compile", "c16:cxx-compile:" + key, "accepted document, but the header does not compile (%s):\n%s\n--- document\n%s"
                                  % (stage, "\n".join(text.splitlines()[:14]), doc["qml"][:3000]), stage=stage))
            if focus == "handlers":
                # a connect() to a signal overload that does not exist in C++ (e.g. a default-argument clone
                # taken for a function of its own) is "wired to the wrong signal", seen at build time
                signames = sorted(set(h["signal"] for o in doc["objects"] + [doc["root"]] for h in o["handlers"]))
                for stage, text in sorted(b["errors"].items()):
                    hit = [n for n in signames if ("::%s)" % n) in text or ("::%s'" % n) in text]
                    if hit:
                        viol.append(V("wiring", "c13:handler-connection-does-not-compile",
                                      "the connection set up for handler signal %s does not compile against the class declarations (%s):\n%s\n--- document\n%s"
                                      % (hit, stage, "\n".join(l for l in text.splitlines() if "error" in l or "QOverload" in l)[:1200], doc["qml"][:2500])))
                        break
            if not b["binary"]:
                return viol, fps, {"document": doc["qml"][:1500], "compile_errors": sorted(b["errors"])}
        names, mapping = name_mapping(doc, b["info"])
        nb = sum(len(o["bindings"]) for o in doc["objects"]) + len(doc["root"]["bindings"])
        nh = sum(len(o["handlers"]) for o in doc["objects"]) + len(doc["root"]["handlers"])
        nobs = tr["header"].count("PropertyObserver observed")
        fps.append("doc|b=%d|h=%d|obs=%d|%s" % (nb, nh, nobs, doc["qml"][:0] + str(hash_text(doc["qml"]))))
        _bump(probes, "bindings_generated", nb)
        _bump(probes, "handlers_generated", nh)
        _bump(probes, "functions_with_property_observers", nobs)
        hist_summaries = []
        for hi, h in enumerate(case["histories"]):
            lines = world.history_lines(h["init"], h["groups"], mapping)
            res = build.run_driver(b["binary"], lines, workdir, tag=str(hi))
            stats["runs"] += 1
            obs, abort, done = build.parse_observations(res["out"])
            stats["sim_steps"]["events_delivered"] = stats["sim_steps"].get("events_delivered", 0) + max(len(obs) - 2, 0)
            stats["sim_steps"]["slot_invocations"] = stats["sim_steps"].get("slot_invocations", 0) + sum(o["slots"] for o in obs)
            w = world.build_world(doc, names)
            targets = target_set(w)
            w.active = True
            kinds = ["construct", "setup"] + [g["kind"] for g in h["groups"]]
            always_state = {}
            for op in h["init"]["ops"]:
                if op[0] == "always":
                    always_state[op[1]] = bool(op[2])
            failed = False
            prev = None
            for oi, ob in enumerate(obs):
                where = "history %d, after %s (observation %d)" % (hi, kinds[oi] if oi < len(kinds) else "?", oi)
                if oi == 0:
                    prev = ob
                    # objects created between construct and setup
                    for op in h["init"]["ops"]:
                        if op[0] == "new":
                            w.add_object(op[1], op[2])
                    continue
                g = h["groups"][oi - 2] if oi >= 2 else None
                if g is not None:
                    for op in g["ops"]:
                        if op[0] == "new":
                            w.add_object(op[1], op[2])
                        elif op[0] == "destroy":
                            w.remove_object(op[1])
                    for k in ([g["kind"]] if g["kind"] != "BURST" else ["BURST"] + g.get("sub", [])):
                        _bump(stats["faults_fired"], k)
                # ---- C02: currency at quiescence
                vs, merr = check_currency(w, doc, names, ob, targets, where)
                if merr:
                    _bump(probes, "observations_skipped_model_undefined")
                    stats.setdefault("notes", []).append(merr)
                    break
                if focus in ("bindings", "build"):
                    for v in vs:
                        v["history"] = hi
                        v["group"] = oi - 2
                    viol += vs
                if vs:
                    failed = True
                # ---- C13: wiring after setup, effects of each emission
                if focus == "handlers":
                    if oi == 1:
                        vv = check_wiring(w, doc, names, ob, where)
                        for v in vv:
                            v["history"] = hi
                            v["group"] = -1
                        viol += vv
                    if g is not None and not vs:
                        vv = check_effects(doc, names, mapping, g, prev, ob, targets, where, probes, always_state)
                        for v in vv:
                            v["history"] = hi
                            v["group"] = oi - 2
                        viol += vv
                        if vv:
                            failed = True
                if g is not None:
                    for op in g["ops"]:
                        if op[0] == "always":
                            always_state[op[1]] = bool(op[2])
                track_probes(ob, prev, g, probes, w)
                prev = ob
                if failed:
                    break
            if not done and not failed:
                cls, key, detail = classify_abort(res, abort)
                gi = len(obs) - 2
                kind = h["groups"][gi]["kind"] if 0 <= gi < len(h["groups"]) else ("setup" if gi < 0 else "?")
                viol.append(V(cls, key, "history %d, during %s (event %d): %s\n  event lines: %s" % (
                    hi, kind, gi, detail, (h["groups"][gi]["lines"] if 0 <= gi < len(h["groups"]) else h["init"]["lines"])[:6]), history=hi, group=gi))
            hist_summaries.append({"events": [g["kind"] for g in h["groups"]][:40], "observations": len(obs), "completed": done})
            if obs:
                fps.append("hist|%s|%s" % (hash_text(doc["qml"]), hash_text("\n".join(lines))))
        sample = {"document": doc["qml"][:2500], "pins": doc["pins"], "histories": hist_summaries[:2],
                  "first_history_lines": world.history_lines(case["histories"][0]["init"], case["histories"][0]["groups"], mapping)[:40] if case["histories"] else []}
        return viol, fps, sample
    finally:
        shutil.rmtree(workdir, ignore_errors=True)


FACILITIES = [  # (regex over the header text, header that declares it)
    (r"\bstd::(max|min)\b", "algorithm"), (r"\bstd::fmod\b", "cmath"), (r"\bq(Debug|Info|Warning|Critical)\s*\(", "QtDebug"),
]


def scan_facilities(header, doc):
    """token-level scan: each standard or Qt facility used by the header is included by the header itself
    (libstdc++ and qglobal.h make std::max visible through almost any header, so a compiler cannot tell)"""
    import re
    out = []
    incs = set(re.findall(r"^#include <([^>]+)>", header, re.M))
    for rx_, inc in FACILITIES:
        m = re.search(rx_, header)
        if m and inc not in incs:
            out.append(V("include", "c16:missing-include:" + inc, "the header uses %s but does not #include <%s> (includes: %s)\n--- document\n%s"
                         % (m.group(0), inc, sorted(incs), doc["qml"][:2500])))
    return out


def hash_text(t):
    import hashlib
    return hashlib.sha256(t.encode("utf-8")).hexdigest()[:12]


def classify_compile_error(text, header_text=""):
    """stable, compiler-independent key for a compile failure: the construct on the offending header line"""
    import re
    hl = header_text.splitlines()
    for line in text.splitlines():
        m = re.search(r"uisupport_\w+\.h:(\d+):(\d+): error: (.*)$", line)
        if not m:
            continue
        ln = int(m.group(1))
        src = hl[ln - 1] if 0 < ln <= len(hl) else ""
        msg = m.group(3)
        if "\\u{" in src or "universal character" in msg:
            return "string-escape"
        if re.search(r"\ba\d+ % |% \d+(\.\d+)?e", src) and ("operands" in msg):
            return "double-rem"
        if "std::max(" in src or "std::min(" in src:
            return "minmax-mixed-types"
        if "redeclar" in msg or "cannot be overloaded" in msg or "redefinition" in msg or "duplicate" in msg:
            return "duplicate-name"
        msg = re.sub(r"[‘'][^’']*[’']", "_", msg)
        msg = re.sub(r"[0-9]+", "N", msg)
        return re.sub(r"[^A-Za-z_]+", "-", msg)[:50].strip("-")
    for line in text.splitlines():
        if "error" in line:
            return re.sub(r"[^A-Za-z_]+", "-", line.split("error", 1)[1])[:50].strip("-")
    return "unknown"


def track_probes(ob, prev, g, probes, w):
    if ob["depth"] >= 3:
        _bump(probes, "observations_with_nested_update_depth_3_or_more")
    if prev is not None:
        # observers reconnected: a live connection whose sender changed for the same signal
        before = set((c[0], c[1]) for c in prev["conns"] if c[3])
        after = set((c[0], c[1]) for c in ob["conns"] if c[3])
        if after - before and g is not None and any(k in g["kind"] or k in g.get("sub", []) for k in ("REPOINT", "DESTROY+CREATE_REUSE", "CREATE_REUSE", "NULL")):
            _bump(probes, "events_after_which_new_subscriptions_appeared")
    if g is not None and "CREATE_REUSE" in g["kind"]:
        _bump(probes, "objects_recreated_at_a_dead_objects_address")


def check_wiring(w, doc, names, ob, where):
    """for each accepted handler exactly one live connection from the declaring object, on the
    C++ signal the class description names (the most-arguments clone)"""
    out = []
    for (o, key), h in sorted(w.handlers.items()):
        name = key.split("(")[0]
        live = [c for c in ob["conns"] if c[0] == o and c[3] and c[1].split("::", 1)[1].split("(")[0] == name]
        if h.get("notify"):
            # bindings subscribe to notify signals too, so the table cannot tell whose connection is whose;
            # multiplicity is decided behaviourally (a handler connected twice doubles its effects)
            if not any(c[1].split("::", 1)[1] == key for c in live):
                out.append(V("wiring", "c13:wrong-overload", "%s: handler %s on %s: no live connection to %s (live: %s)" % (where, h["on"], o, key, live)))
            continue
        if len(live) != 1:
            out.append(V("wiring", "c13:connection-count", "%s: handler %s on %s has %d live connections to a signal named %s: %s"
                         % (where, h["on"], o, len(live), name, live)))
            continue
        sig = live[0][1].split("::", 1)[1]
        if sig != key:
            out.append(V("wiring", "c13:wrong-overload", "%s: handler %s on %s is connected to %s, expected %s" % (where, h["on"], o, sig, key)))
    return out


def check_effects(doc, names, mapping, g, prev, ob, targets, where, probes, always_state):
    """C13 oracle for one event group: the handler-channel trace (calls, logs, writes to properties that are not
    binding targets - including the scheduler's own writes and everything handlers on notify signals do in
    response) and the non-target state equal the reference interpreter's, starting from the previously observed state."""
    out = []
    w = world.build_world(doc, names)
    w.active = True
    w.always = dict(always_state)
    for o in prev["state"]:
        if o not in w.cls:
            # externals: the class is recoverable from the observed property set
            props = set(prev["state"][o])
            w.add_object(o, "SimModel" if "title" in props else ("SimPanel" if "level" in props else "SimWidget"))
    adopt(w, prev["state"], set())
    try:
        w.recompute()
        exp = world.apply_group(w, g["ops"], mapping)
    except model.Undefined as e:
        _bump(probes, "groups_skipped_model_undefined")
        return out
    except KeyError:
        _bump(probes, "groups_skipped_model_undefined")
        return out
    exp_lines = world.handler_channel([world.trace_line(w, e) for e in exp], targets)
    got_lines = world.handler_channel(ob["trace"], targets)
    emits = [op for op in g["ops"] if op[0] == "emit"]
    with_handler = [op for op in emits if (mapping.get(op[1], op[1]), op[2]) in w.handlers]
    _bump(probes, "emissions_with_handler", len(with_handler))
    _bump(probes, "emissions_without_handler", len(emits) - len(with_handler))
    _bump(probes, "handler_effects_compared", len(exp_lines))
    if w.notify_fired:
        _bump(probes, "notify_handlers_run_inside_a_setter", w.notify_fired)
    if w.max_handler_depth >= 2:
        _bump(probes, "groups_with_nested_handlers_depth_2_or_more")
    if with_handler and any(l.startswith("set") for l in ob["trace"] if world.canon_line(l) not in got_lines):
        _bump(probes, "emissions_whose_handler_woke_a_binding")
    desc = "; ".join(g["lines"][:4]) + (" ..." if len(g["lines"]) > 4 else "")
    if exp_lines != got_lines:
        k = 0
        while k < min(len(exp_lines), len(got_lines)) and exp_lines[k] == got_lines[k]:
            k += 1
        key = "c13:effects-differ" if (with_handler or w.notify_fired) else "c13:unexpected-effects"
        out.append(V("effects", key, "%s: %s\n  first difference at effect %d:\n  reference: %s\n  observed:  %s\n  reference trace: %s\n  observed trace:  %s"
                     % (where, desc, k, exp_lines[k] if k < len(exp_lines) else "<end>", got_lines[k] if k < len(got_lines) else "<end>",
                        pretty(exp_lines), pretty(got_lines))))
        return out
    # state of everything that is not a binding target
    for o, props in ob["state"].items():
        if o not in w.props:
            continue
        for p, t in props.items():
            if (o, p) in targets:
                continue
            if not world.values_equal(gen.untok(t), w.props[o][p]):
                out.append(V("effects", "c13:state-differs", "%s: after %s: %s.%s observed %r, reference %r" % (where, desc, o, p, gen.untok(t), w.props[o][p])))
                return out
    return out


def pretty(lines):
    out = []
    for ln in lines[:12]:
        parts = ln.split(" ")
        shown = []
        for x in parts:
            if len(x) > 2 and x[1] == ":" and x[0] in "iudbslo":
                try:
                    shown.append(repr(gen.untok(x)))
                    continue
                except Exception:
                    pass
            shown.append(x)
        out.append(" ".join(shown))
    return " | ".join(out)


def shrink_doc_case(case, violation):
    """history-level shrinking (no recompilation needed per candidate beyond the cached TU)"""
    hi = violation.get("history")
    gi = violation.get("group")
    if case.get("prev_qml"):
        c = copy.deepcopy(case)
        del c["prev_qml"]
        yield c
    if case.get("wfault"):
        c = copy.deepcopy(case)
        del c["wfault"]
        yield c
    if hi is not None and len(case["histories"]) > 1:
        c = copy.deepcopy(case)
        c["histories"] = [case["histories"][hi]]
        yield c
        return
    if len(case["histories"]) == 1 and gi is not None:
        h = case["histories"][0]
        if gi + 1 < len(h["groups"]):
            c = copy.deepcopy(case)
            c["histories"][0]["groups"] = h["groups"][:gi + 1]
            yield c
        # drop single earlier groups that neither create nor destroy objects
        safe = {"SET", "SET_SAME", "NOTIFY_SPURIOUS", "ALWAYS_EMIT", "EMIT", "EMIT_OTHER"}
        for k in range(min(gi, len(h["groups"])) - 1, -1, -1):
            gk = h["groups"][k]
            # pointer events keep later DESTROY / pin assumptions legal: never dropped
            if not (gk["kind"] in safe or (gk["kind"] == "BURST" and set(gk.get("sub", [])) <= safe)):
                continue
            c = copy.deepcopy(case)
            del c["histories"][0]["groups"][k]
            yield c
    # document-level reductions (each candidate is re-translated and re-compiled): drop handlers, then bindings the
    # violation does not name, then constants
    if len(case["histories"]) <= 1:
        doc = case["doc"]
        keep = violation.get("binding")
        owners = [("root", doc["root"])] + [(i, o) for i, o in enumerate(doc["objects"])]
        for oi, o in owners:
            for hi in range(len(o["handlers"]) - 1, -1, -1):
                yield _doc_variant(case, oi, "handlers", hi)
        for oi, o in reversed(owners):
            for bi in range(len(o["bindings"]) - 1, -1, -1):
                b = o["bindings"][bi]
                if keep and b["target"] == keep[1] and (b.get("sub") == keep[2]):
                    continue
                yield _doc_variant(case, oi, "bindings", bi)
        for oi, o in owners:
            for ci in range(len(o["consts"]) - 1, -1, -1):
                yield _doc_variant(case, oi, "consts", ci)


def _doc_variant(case, owner_index, field, k):
    c = copy.deepcopy(case)
    doc = c["doc"]
    o = doc["root"] if owner_index == "root" else doc["objects"][owner_index]
    del o[field][k]
    doc["qml"] = gen.render_doc(doc)
    return c


// qtsim.h - a small executable model of the part of Qt's object/signal runtime that
// qmluic-generated support headers rely on.  Trusted base of World B; rules are listed in
// DESIGN.md section 5.2.  Single-threaded, reads no clock, allocation-order free.
//
// Deliberately NOT provided here (so that a missing #include in a generated header fails to
// compile): qDebug()/qInfo()/qWarning()/qCritical() live in <QtDebug>.
#pragma once
#include <cstdint>
#include <cstdio>
#include <cstdlib>
#include <cstring>
#include <functional>
#include <initializer_list>
#include <map>
#include <memory>
#include <string>
#include <tuple>
#include <type_traits>
#include <typeindex>
#include <typeinfo>
#include <utility>
#include <vector>
#include <unistd.h>

typedef unsigned int uint;
typedef uint32_t quint32;
typedef int32_t qint32;
typedef double qreal;

#define Q_UNLIKELY(x) __builtin_expect(!!(x), false)
#define Q_LIKELY(x) __builtin_expect(!!(x), true)
#define Q_EMIT
#define emit
#define Q_UNREACHABLE() simAbort("unreachable", __func__)
#ifndef QT_NO_DEBUG
#define Q_ASSERT_X(cond, where, what) ((cond) ? static_cast<void>(0) : simAbort("assert", what))
#define Q_ASSERT(cond) ((cond) ? static_cast<void>(0) : simAbort("assert", #cond))
#else
#define Q_ASSERT_X(cond, where, what) static_cast<void>(false && (cond))
#define Q_ASSERT(cond) static_cast<void>(false && (cond))
#endif

[[noreturn]] inline void simAbort(const char *cls, const char *detail)
{
    std::printf("ABORT %s %s\n", cls, detail);
    std::fflush(stdout);
    _exit(3);
}

// ---------------------------------------------------------------- QString

class QString
{
public:
    QString() {}
    QString(const char *utf8) : d_(utf8 ? utf8 : "") {}
    QString(const char *utf8, size_t n) : d_(utf8, n) {}
    QString(const std::string &s) : d_(s) {}
    bool isEmpty() const { return d_.empty(); }
    int size() const { return static_cast<int>(d_.size()); }
    const std::string &simUtf8() const { return d_; }
    friend bool operator==(const QString &a, const QString &b) { return a.d_ == b.d_; }
    friend bool operator!=(const QString &a, const QString &b) { return a.d_ != b.d_; }
    friend bool operator<(const QString &a, const QString &b) { return a.d_ < b.d_; }
    friend bool operator<=(const QString &a, const QString &b) { return a.d_ <= b.d_; }
    friend bool operator>(const QString &a, const QString &b) { return a.d_ > b.d_; }
    friend bool operator>=(const QString &a, const QString &b) { return a.d_ >= b.d_; }
    friend QString operator+(const QString &a, const QString &b) { return QString(a.d_ + b.d_); }
    QString &operator+=(const QString &b) { d_ += b.d_; return *this; }
    // replaces every occurrence of the lowest-numbered place marker %1..%99
    QString arg(const QString &a) const
    {
        int lowest = 100;
        for (size_t i = 0; i + 1 < d_.size(); ++i) {
            if (d_[i] == '%' && d_[i + 1] >= '0' && d_[i + 1] <= '9') {
                int n = d_[i + 1] - '0';
                if (i + 2 < d_.size() && d_[i + 2] >= '0' && d_[i + 2] <= '9') n = n * 10 + (d_[i + 2] - '0');
                if (n >= 1 && n < lowest) lowest = n;
            }
        }
        if (lowest == 100) return *this;
        std::string out;
        for (size_t i = 0; i < d_.size();) {
            if (d_[i] == '%' && i + 1 < d_.size() && d_[i + 1] >= '0' && d_[i + 1] <= '9') {
                int n = d_[i + 1] - '0';
                size_t len = 2;
                if (i + 2 < d_.size() && d_[i + 2] >= '0' && d_[i + 2] <= '9') { n = n * 10 + (d_[i + 2] - '0'); len = 3; }
                if (n == lowest) { out += a.d_; i += len; continue; }
            }
            out += d_[i++];
        }
        return QString(out);
    }
    QString arg(int v) const { return arg(QString(std::to_string(v))); }
    QString arg(uint v) const { return arg(QString(std::to_string(v))); }
    QString arg(long long v) const { return arg(QString(std::to_string(v))); }
    QString arg(double v) const { char b[64]; std::snprintf(b, sizeof b, "%g", v); return arg(QString(b)); }
    static QString number(int v) { return QString(std::to_string(v)); }
    static QString number(double v) { char b[64]; std::snprintf(b, sizeof b, "%g", v); return QString(b); }
private:
    std::string d_;
};
// like Qt's, sized from the literal: an embedded NUL does not end the string
#define QStringLiteral(str) QString(str, sizeof(str) - 1)
#define QLatin1String(str) QString(str)

// ---------------------------------------------------------------- QList / QStringList

template<typename T>
class QList
{
public:
    QList() {}
    QList(std::initializer_list<T> l) : d_(l) {}
    bool isEmpty() const { return d_.empty(); }
    int size() const { return static_cast<int>(d_.size()); }
    int count() const { return size(); }
    const T &at(int i) const
    {
        if (i < 0 || i >= size()) simAbort("out-of-range", "QList::at");
        return d_[static_cast<size_t>(i)];
    }
    T &operator[](int i)
    {
        if (i < 0 || i >= size()) simAbort("out-of-range", "QList::operator[]");
        return d_[static_cast<size_t>(i)];
    }
    const T &operator[](int i) const { return at(i); }
    void append(const T &v) { d_.push_back(v); }
    QList &operator<<(const T &v) { d_.push_back(v); return *this; }
    friend bool operator==(const QList &a, const QList &b) { return a.d_ == b.d_; }
    friend bool operator!=(const QList &a, const QList &b) { return !(a.d_ == b.d_); }
    typename std::vector<T>::const_iterator begin() const { return d_.begin(); }
    typename std::vector<T>::const_iterator end() const { return d_.end(); }
private:
    std::vector<T> d_;
};
typedef QList<QString> QStringList;

// ---------------------------------------------------------------- QFlags

template<typename Enum>
class QFlags
{
public:
    typedef int Int;
    typedef Enum enum_type;
    constexpr QFlags() : i_(0) {}
    constexpr QFlags(Enum f) : i_(static_cast<int>(f)) {}
    constexpr explicit QFlags(int v) : i_(v) {}
    constexpr operator Int() const { return i_; }
    constexpr bool operator!() const { return !i_; }
    constexpr QFlags operator|(QFlags o) const { return QFlags(i_ | o.i_); }
    constexpr QFlags operator|(Enum o) const { return QFlags(i_ | static_cast<int>(o)); }
    constexpr QFlags operator&(QFlags o) const { return QFlags(i_ & o.i_); }
    constexpr QFlags operator&(Enum o) const { return QFlags(i_ & static_cast<int>(o)); }
    constexpr QFlags operator&(int m) const { return QFlags(i_ & m); }
    constexpr QFlags operator^(QFlags o) const { return QFlags(i_ ^ o.i_); }
    constexpr QFlags operator^(Enum o) const { return QFlags(i_ ^ static_cast<int>(o)); }
    constexpr QFlags operator~() const { return QFlags(~i_); }
    QFlags &operator|=(QFlags o) { i_ |= o.i_; return *this; }
    QFlags &operator&=(QFlags o) { i_ &= o.i_; return *this; }
    constexpr bool testFlag(Enum f) const { return (i_ & static_cast<int>(f)) == static_cast<int>(f); }
private:
    int i_;
};
#define Q_DECLARE_OPERATORS_FOR_FLAGS(Flags) \
    constexpr inline Flags operator|(Flags::enum_type a, Flags::enum_type b) { return Flags(a) | b; } \
    constexpr inline Flags operator|(Flags::enum_type a, Flags b) { return b | a; } \
    constexpr inline Flags operator&(Flags::enum_type a, Flags::enum_type b) { return Flags(a) & b; } \
    constexpr inline Flags operator^(Flags::enum_type a, Flags::enum_type b) { return Flags(a) ^ b; } \
    constexpr inline Flags operator~(Flags::enum_type a) { return ~Flags(a); }

// ---------------------------------------------------------------- QFont (gadget)

class QFont
{
public:
    QString family() const { return family_; }
    void setFamily(const QString &v) { family_ = v; }
    int pointSize() const { return pointSize_; }
    void setPointSize(int v) { pointSize_ = v; }
    int weight() const { return weight_; }
    void setWeight(int v) { weight_ = v; }
    bool italic() const { return italic_; }
    void setItalic(bool v) { italic_ = v; }
    bool bold() const { return bold_; }
    void setBold(bool v) { bold_ = v; }
    bool underline() const { return underline_; }
    void setUnderline(bool v) { underline_ = v; }
    bool strikeOut() const { return strikeOut_; }
    void setStrikeOut(bool v) { strikeOut_ = v; }
    bool kerning() const { return kerning_; }
    void setKerning(bool v) { kerning_ = v; }
    friend bool operator==(const QFont &a, const QFont &b)
    {
        return a.family_ == b.family_ && a.pointSize_ == b.pointSize_ && a.weight_ == b.weight_ && a.italic_ == b.italic_
            && a.bold_ == b.bold_ && a.underline_ == b.underline_ && a.strikeOut_ == b.strikeOut_ && a.kerning_ == b.kerning_;
    }
private:
    QString family_;
    int pointSize_ = -1;
    int weight_ = 50;
    bool italic_ = false, bold_ = false, underline_ = false, strikeOut_ = false, kerning_ = true;
};

// ---------------------------------------------------------------- world (trace, registry, knobs)

class QObject;

struct SimWorld
{
    std::vector<std::string> trace;
    std::map<std::string, QObject *> byName;
    std::map<std::string, bool> alwaysEmits;        // property name -> setter emits even when unchanged
    unsigned long slotInvocations = 0;              // since last reset (one event)
    unsigned long slotInvocationsTotal = 0;
    unsigned depth = 0, maxDepth = 0;
    unsigned nextConnId = 1;
    static SimWorld &get() { static SimWorld w; return w; }
};

inline bool simAlwaysEmits(const char *prop)
{
    auto &m = SimWorld::get().alwaysEmits;
    auto it = m.find(prop);
    return it != m.end() && it->second;
}

// ---------------------------------------------------------------- signals / connections

struct SimSigKey
{
    std::type_index type;
    std::string bytes;
    bool operator==(const SimSigKey &o) const { return type == o.type && bytes == o.bytes; }
    bool operator<(const SimSigKey &o) const { return type != o.type ? type < o.type : bytes < o.bytes; }
};
template<typename Pmf>
inline SimSigKey simSigKey(Pmf pmf)
{
    return SimSigKey{std::type_index(typeid(Pmf)), std::string(reinterpret_cast<const char *>(&pmf), sizeof pmf)};
}
inline std::map<SimSigKey, std::string> &simSignalNames()
{
    static std::map<SimSigKey, std::string> m;
    return m;
}
template<typename Pmf>
inline void simRegisterSignal(Pmf pmf, const char *name) { simSignalNames()[simSigKey(pmf)] = name; }

struct SimConn
{
    unsigned id = 0;
    QObject *sender = nullptr;
    const QObject *context = nullptr;
    SimSigKey key{std::type_index(typeid(void)), std::string()};
    std::function<void(void **)> call;
    bool alive = true;
};

namespace QMetaObject {
class Connection
{
public:
    Connection() {}
    explicit Connection(std::shared_ptr<SimConn> c) : c_(std::move(c)) {}
    // false once disconnected, or once its sender or context object has been destroyed
    explicit operator bool() const { return c_ && c_->alive; }
    std::shared_ptr<SimConn> simConn() const { return c_; }
private:
    std::shared_ptr<SimConn> c_;
};
}

template<typename F> struct SimFnPtr;
template<class Obj, class Ret, class... A>
struct SimFnPtr<Ret (Obj::*)(A...)>
{
    typedef Obj Object;
    typedef std::tuple<typename std::decay<A>::type...> Args;
    static constexpr size_t arity = sizeof...(A);
};

template<class F, class Tuple, size_t... I>
inline auto simIsInvocableWith(std::index_sequence<I...>) -> std::is_invocable<F &, typename std::tuple_element<I, Tuple>::type &...>;

template<class F, class Tuple, size_t... I>
inline void simCallWith(F &f, void **argv, std::index_sequence<I...>)
{
    (void)argv;
    f(*static_cast<typename std::tuple_element<I, Tuple>::type *>(argv[I])...);
}

template<size_t N, class F, class Tuple>
inline void simInvokeTrim(F &f, void **argv)
{
    typedef decltype(simIsInvocableWith<F, Tuple>(std::make_index_sequence<N>{})) Ok;
    if constexpr (Ok::value) {
        simCallWith<F, Tuple>(f, argv, std::make_index_sequence<N>{});
    } else {
        static_assert(N > 0, "slot requires more (or incompatible) arguments than the signal provides");
        simInvokeTrim<N - 1, F, Tuple>(f, argv);
    }
}

template<typename... Args>
struct QOverload
{
    template<typename R, typename T>
    static constexpr auto of(R (T::*ptr)(Args...)) noexcept -> decltype(ptr) { return ptr; }
    template<typename R, typename T>
    static constexpr auto of(R (T::*ptr)(Args...) const) noexcept -> decltype(ptr) { return ptr; }
};

class QObject
{
public:
    explicit QObject(const char *simName) : simName_(simName ? simName : "?")
    {
        SimWorld::get().byName[simName_] = this;
    }
    virtual ~QObject()
    {
        // destroying an object severs all its connections in both directions
        for (auto &c : asSender_) c->alive = false;
        for (auto &c : asContext_) c->alive = false;
        auto &m = SimWorld::get().byName;
        auto it = m.find(simName_);
        if (it != m.end() && it->second == this) m.erase(it);
    }
    QObject(const QObject &) = delete;
    QObject &operator=(const QObject &) = delete;
    const std::string &simName() const { return simName_; }
    const char *simClass() const { return simClass_; }

    template<typename Func1, typename Func2>
    static QMetaObject::Connection connect(const typename SimFnPtr<Func1>::Object *sender, Func1 signal,
                                           const QObject *context, Func2 slot)
    {
        typedef typename SimFnPtr<Func1>::Args Args;
        if (!sender || !context) return QMetaObject::Connection();   // Qt: "invalid nullptr parameter", no connection
        auto c = std::make_shared<SimConn>();
        c->id = SimWorld::get().nextConnId++;
        c->sender = const_cast<QObject *>(static_cast<const QObject *>(sender));
        c->context = context;
        c->key = simSigKey(signal);
        c->call = [slot](void **argv) mutable { simInvokeTrim<SimFnPtr<Func1>::arity, Func2, Args>(slot, argv); };
        c->sender->asSender_.push_back(c);
        const_cast<QObject *>(context)->asContext_.push_back(c);
        return QMetaObject::Connection(c);
    }
    static bool disconnect(const QMetaObject::Connection &conn)
    {
        auto c = conn.simConn();
        if (!c || !c->alive) return false;   // harmless no-op on a dead or default handle
        c->alive = false;
        return true;
    }
    // emission: synchronous, depth first, in connection order; connections made during the
    // emission are not invoked by it; connections removed during it are skipped
    void simDeliver(const SimSigKey &key, void **argv)
    {
        auto &w = SimWorld::get();
        const size_t n = asSender_.size();
        for (size_t i = 0; i < n && i < asSender_.size(); ++i) {
            std::shared_ptr<SimConn> c = asSender_[i];
            if (!c->alive || !(c->key == key)) continue;
            if (++w.slotInvocations > 10000) simAbort("livelock", "more than 10000 slot invocations for one event");
            ++w.slotInvocationsTotal;
            if (++w.depth > w.maxDepth) w.maxDepth = w.depth;
            c->call(argv);
            --w.depth;
        }
        simCompact();
    }
    const std::vector<std::shared_ptr<SimConn>> &simSenderConns() const { return asSender_; }
protected:
    const char *simClass_ = "QObject";
private:
    void simCompact()
    {
        if (SimWorld::get().depth != 0) return;
        // keep dead records out of the way once no emission is on the stack
        std::vector<std::shared_ptr<SimConn>> keep;
        for (auto &c : asSender_) if (c->alive) keep.push_back(c);
        asSender_.swap(keep);
    }
    std::string simName_;
    std::vector<std::shared_ptr<SimConn>> asSender_;
    std::vector<std::shared_ptr<SimConn>> asContext_;
};

template<class Tuple, size_t... I>
inline void simFillArgv(Tuple &vals, void **argv, std::index_sequence<I...>)
{
    (void)vals; (void)argv;
    ((argv[I] = static_cast<void *>(&std::get<I>(vals))), ...);
}

// Like a direct connection in Qt, emission hands the slots POINTERS to the emitter's own argument objects (no copy):
// a slot declared with a by-value parameter copies at the call, one declared "const T &" aliases what the emitter
// passed - typically its stored member, which a nested emission may overwrite.
template<class C, class... A, class... B>
inline void simEmit(C *sender, void (C::*sig)(A...), B &&...args)
{
    static_assert((std::is_same<typename std::decay<A>::type, typename std::decay<B>::type>::value && ...),
                  "simEmit: arguments must have exactly the signal's parameter types");
    void *argv[sizeof...(A) + 1] = {const_cast<void *>(static_cast<const void *>(&args))...};
    sender->simDeliver(simSigKey(sig), argv);
}

// ---------------------------------------------------------------- value rendering for traces

inline std::string simHex(const std::string &s)
{
    static const char *d = "0123456789abcdef";
    std::string o;
    for (unsigned char c : s) { o += d[c >> 4]; o += d[c & 15]; }
    return o;
}
inline std::string simRepr(int v) { return "i:" + std::to_string(v); }
inline std::string simRepr(uint v) { return "u:" + std::to_string(v); }
inline std::string simRepr(bool v) { return v ? "b:1" : "b:0"; }
inline std::string simRepr(double v) { char b[64]; std::snprintf(b, sizeof b, "d:%.17g", v); return b; }
inline std::string simRepr(const QString &v) { return "s:" + simHex(v.simUtf8()); }
inline std::string simRepr(const char *v) { return "s:" + simHex(v ? v : ""); }
inline std::string simRepr(const QStringList &v)
{
    if (v.isEmpty()) return "l0";
    std::string o = "l:";
    for (int i = 0; i < v.size(); ++i) { if (i) o += ","; o += simHex(v.at(i).simUtf8()); }
    return o;
}
inline std::string simRepr(const QObject *o) { return o ? "o:" + o->simName() : std::string("o:null"); }
template<typename E> inline std::string simRepr(QFlags<E> f) { return "i:" + std::to_string(static_cast<int>(f)); }
template<typename E, typename = typename std::enable_if<std::is_enum<E>::value>::type>
inline std::string simRepr(E e) { return "i:" + std::to_string(static_cast<int>(e)); }
inline std::string simRepr(const QFont &f)
{
    return "f:" + simHex(f.family().simUtf8()) + "," + std::to_string(f.pointSize()) + "," + std::to_string(f.weight()) + ","
        + (f.italic() ? "1" : "0") + (f.bold() ? "1" : "0") + (f.underline() ? "1" : "0") + (f.strikeOut() ? "1" : "0") + (f.kerning() ? "1" : "0");
}

inline void simTraceSet(const QObject *o, const char *prop, const std::string &v)
{
    SimWorld::get().trace.push_back("set " + o->simName() + " " + prop + " " + v);
}
inline void simTraceCall(const QObject *o, const char *method, std::initializer_list<std::string> args)
{
    std::string s = "call " + o->simName() + " " + method;
    for (auto &a : args) s += " " + a;
    SimWorld::get().trace.push_back(s);
}

// ---------------------------------------------------------------- QCoreApplication::translate

class QCoreApplication
{
public:
    static QString translate(const char *context, const char *sourceText, const char * = nullptr, int = -1)
    {
        SimWorld::get().trace.push_back(std::string("tr ") + simHex(context ? context : "") + " " + simHex(sourceText ? sourceText : ""));
        return QString(sourceText);
    }
};
typedef QCoreApplication QApplication;

// ---------------------------------------------------------------- a few real classes, minimal

class QWidget : public QObject
{
public:
    explicit QWidget(const char *simName) : QObject(simName) { simClass_ = "QWidget"; }
    QString windowTitle() const { return windowTitle_; }
    void setWindowTitle(const QString &v)
    {
        const bool changed = !(windowTitle_ == v);
        windowTitle_ = v;
        simTraceSet(this, "windowTitle", simRepr(v));
        if (changed) windowTitleChanged(v);
    }
    void windowTitleChanged(const QString &v) { simEmit(this, static_cast<void (QWidget::*)(const QString &)>(&QWidget::windowTitleChanged), v); }
    bool isEnabled() const { return enabled_; }
    void setEnabled(bool v) { enabled_ = v; simTraceSet(this, "enabled", simRepr(v)); }
    bool isVisible() const { return visible_; }
    void setVisible(bool v) { visible_ = v; simTraceSet(this, "visible", simRepr(v)); }
    QString toolTip() const { return toolTip_; }
    void setToolTip(const QString &v) { toolTip_ = v; simTraceSet(this, "toolTip", simRepr(v)); }
    QString statusTip() const { return statusTip_; }
    void setStatusTip(const QString &v) { statusTip_ = v; simTraceSet(this, "statusTip", simRepr(v)); }
    QString whatsThis() const { return whatsThis_; }
    void setWhatsThis(const QString &v) { whatsThis_ = v; simTraceSet(this, "whatsThis", simRepr(v)); }
    int minimumWidth() const { return minimumWidth_; }
    void setMinimumWidth(int v) { minimumWidth_ = v; simTraceSet(this, "minimumWidth", simRepr(v)); }
    void show() { setVisible(true); }
    void hide() { setVisible(false); }
    void close() { simTraceCall(this, "close", {}); }
private:
    QString windowTitle_, toolTip_, statusTip_, whatsThis_;
    bool enabled_ = true, visible_ = false;
    int minimumWidth_ = 0;
};

// QAction as in the working tree's metatypes (Qt 5 flavour: most properties notify through changed())
class QAction : public QObject
{
public:
    explicit QAction(const char *simName) : QObject(simName) { simClass_ = "QAction"; }
    bool isCheckable() const { return checkable_; }
    void setCheckable(bool v) { const bool c = checkable_ != v; checkable_ = v; simTraceSet(this, "checkable", simRepr(v)); if (c) changed(); }
    bool isChecked() const { return checked_; }
    void setChecked(bool v) { const bool c = checked_ != v; checked_ = v; simTraceSet(this, "checked", simRepr(v)); if (c) { changed(); toggled(v); } }
    bool isEnabled() const { return enabled_; }
    void setEnabled(bool v) { const bool c = enabled_ != v; enabled_ = v; simTraceSet(this, "enabled", simRepr(v)); if (c) changed(); }
    void setDisabled(bool v) { setEnabled(!v); }
    bool isVisible() const { return visible_; }
    void setVisible(bool v) { const bool c = visible_ != v; visible_ = v; simTraceSet(this, "visible", simRepr(v)); if (c) changed(); }
    bool autoRepeat() const { return autoRepeat_; }
    void setAutoRepeat(bool v) { autoRepeat_ = v; changed(); }
    bool isIconVisibleInMenu() const { return iconVisible_; }
    void setIconVisibleInMenu(bool v) { iconVisible_ = v; changed(); }
    bool isShortcutVisibleInContextMenu() const { return shortcutVisible_; }
    void setShortcutVisibleInContextMenu(bool v) { shortcutVisible_ = v; changed(); }
    QString text() const { return text_; }
    void setText(const QString &v) { const bool c = !(text_ == v); text_ = v; simTraceSet(this, "text", simRepr(v)); if (c) changed(); }
    QString iconText() const { return iconText_; }
    void setIconText(const QString &v) { iconText_ = v; changed(); }
    QString toolTip() const { return toolTip_; }
    void setToolTip(const QString &v) { toolTip_ = v; changed(); }
    QString statusTip() const { return statusTip_; }
    void setStatusTip(const QString &v) { statusTip_ = v; changed(); }
    QString whatsThis() const { return whatsThis_; }
    void setWhatsThis(const QString &v) { whatsThis_ = v; changed(); }
    QFont font() const { return font_; }
    void setFont(const QFont &f) { font_ = f; changed(); }
    void trigger() { simTraceCall(this, "trigger", {}); if (checkable_) setChecked(!checked_); triggered(checked_); }
    void hover() { simTraceCall(this, "hover", {}); hovered(); }
    void toggle() { simTraceCall(this, "toggle", {}); setChecked(!checked_); }
    void changed() { simEmit(this, static_cast<void (QAction::*)()>(&QAction::changed)); }
    void triggered(bool checked = false) { simEmit(this, static_cast<void (QAction::*)(bool)>(&QAction::triggered), checked); }
    void hovered() { simEmit(this, static_cast<void (QAction::*)()>(&QAction::hovered)); }
    void toggled(bool v) { simEmit(this, static_cast<void (QAction::*)(bool)>(&QAction::toggled), v); }
private:
    bool checkable_ = false, checked_ = false, enabled_ = true, visible_ = true, autoRepeat_ = true, iconVisible_ = true, shortcutVisible_ = true;
    QString text_, iconText_, toolTip_, statusTip_, whatsThis_;
    QFont font_;
};

class QDialog : public QWidget
{
public:
    explicit QDialog(const char *simName) : QWidget(simName) { simClass_ = "QDialog"; }
    bool isSizeGripEnabled() const { return sizeGrip_; }
    void setSizeGripEnabled(bool v) { sizeGrip_ = v; simTraceSet(this, "sizeGripEnabled", simRepr(v)); }
    void accept() { simTraceCall(this, "accept", {}); accepted(); }
    void reject() { simTraceCall(this, "reject", {}); rejected(); }
    void done(int r) { simTraceCall(this, "done", {simRepr(r)}); finished(r); }
    void accepted() { simEmit(this, static_cast<void (QDialog::*)()>(&QDialog::accepted)); }
    void rejected() { simEmit(this, static_cast<void (QDialog::*)()>(&QDialog::rejected)); }
    void finished(int r) { simEmit(this, static_cast<void (QDialog::*)(int)>(&QDialog::finished), r); }
private:
    bool sizeGrip_ = false;
};

class QLayout : public QObject
{
public:
    explicit QLayout(const char *simName) : QObject(simName) { simClass_ = "QLayout"; }
};
class QBoxLayout : public QLayout { public: explicit QBoxLayout(const char *n) : QLayout(n) {} };
class QVBoxLayout : public QBoxLayout { public: explicit QVBoxLayout(const char *n) : QBoxLayout(n) { simClass_ = "QVBoxLayout"; } };
class QHBoxLayout : public QBoxLayout { public: explicit QHBoxLayout(const char *n) : QBoxLayout(n) { simClass_ = "QHBoxLayout"; } };
class QGridLayout : public QLayout { public: explicit QGridLayout(const char *n) : QLayout(n) { simClass_ = "QGridLayout"; } };
class QFormLayout : public QLayout { public: explicit QFormLayout(const char *n) : QLayout(n) { simClass_ = "QFormLayout"; } };

// Driver-side runtime of World B: value parsing, history interpreter, observation output.
// The orchestrator alone decides the next event; this side is single-threaded and reads no clock.
#pragma once
#include "qtsim.h"
#include "simhooks.h"
#include <algorithm>
#include <fstream>
#include <iostream>
#include <sstream>

#if defined(__SANITIZE_ADDRESS__)
#include <sanitizer/asan_interface.h>
#define SIM_POISON(p, n) ASAN_POISON_MEMORY_REGION(p, n)
#define SIM_UNPOISON(p, n) ASAN_UNPOISON_MEMORY_REGION(p, n)
#else
#define SIM_POISON(p, n) ((void)(p), (void)(n))
#define SIM_UNPOISON(p, n) ((void)(p), (void)(n))
#endif

inline std::string simUnhex(const std::string &h)
{
    std::string o;
    for (size_t i = 0; i + 1 < h.size(); i += 2) o += static_cast<char>(std::stoi(h.substr(i, 2), nullptr, 16));
    return o;
}

struct SimValue
{
    char kind = 'i';
    long long i = 0;
    double d = 0;
    std::string s;
    std::vector<std::string> l;
    QObject *o = nullptr;
    QFont f;
    int asInt() const { return static_cast<int>(i); }
    uint asUInt() const { return static_cast<uint>(i); }
    double asDouble() const { return kind == 'd' ? d : static_cast<double>(i); }
    bool asBool() const { return i != 0; }
    QString asString() const { return QString(s); }
    QStringList asStringList() const { QStringList r; for (auto &x : l) r.append(QString(x)); return r; }
    QObject *asObject() const { return o; }
    QFont asFont() const { return f; }
};

inline SimValue simParseValue(const std::string &tok)
{
    SimValue v;
    if (tok == "l0") { v.kind = 'l'; return v; }
    if (tok.size() < 2 || tok[1] != ':') simAbort("driver", ("bad value token " + tok).c_str());
    v.kind = tok[0];
    const std::string body = tok.substr(2);
    switch (v.kind) {
    case 'i': case 'u': case 'b': v.i = std::stoll(body); break;
    case 'd': v.d = std::stod(body); break;
    case 's': v.s = simUnhex(body); break;
    case 'l': {
        size_t pos = 0;
        for (;;) {
            size_t c = body.find(',', pos);
            v.l.push_back(simUnhex(body.substr(pos, c == std::string::npos ? std::string::npos : c - pos)));
            if (c == std::string::npos) break;
            pos = c + 1;
        }
        break;
    }
    case 'f': {
        // family-hex,pointSize,weight,<italic bold underline strikeOut kerning as 0/1>
        std::vector<std::string> parts;
        size_t pos = 0;
        for (;;) {
            size_t c = body.find(',', pos);
            parts.push_back(body.substr(pos, c == std::string::npos ? std::string::npos : c - pos));
            if (c == std::string::npos) break;
            pos = c + 1;
        }
        if (parts.size() != 4 || parts[3].size() != 5) simAbort("driver", ("bad font token " + tok).c_str());
        v.f.setFamily(QString(simUnhex(parts[0])));
        v.f.setPointSize(std::stoi(parts[1]));
        v.f.setWeight(std::stoi(parts[2]));
        v.f.setItalic(parts[3][0] == '1');
        v.f.setBold(parts[3][1] == '1');
        v.f.setUnderline(parts[3][2] == '1');
        v.f.setStrikeOut(parts[3][3] == '1');
        v.f.setKerning(parts[3][4] == '1');
        break;
    }
    case 'o':
        if (body != "null") {
            auto &m = SimWorld::get().byName;
            auto it = m.find(body);
            if (it == m.end()) simAbort("driver", ("unknown object " + body).c_str());
            v.o = it->second;
        }
        break;
    default: simAbort("driver", ("bad value kind " + tok).c_str());
    }
    return v;
}

inline bool simSetBuiltinProperty(QObject *o, const std::string &prop, const SimValue &v)
{
    if (auto *d = dynamic_cast<QDialog *>(o)) {
        if (prop == "sizeGripEnabled") { d->setSizeGripEnabled(v.asBool()); return true; }
    }
    if (auto *w = dynamic_cast<QWidget *>(o)) {
        if (prop == "windowTitle") { w->setWindowTitle(v.asString()); return true; }
        if (prop == "enabled") { w->setEnabled(v.asBool()); return true; }
        if (prop == "visible") { w->setVisible(v.asBool()); return true; }
        if (prop == "toolTip") { w->setToolTip(v.asString()); return true; }
        if (prop == "statusTip") { w->setStatusTip(v.asString()); return true; }
        if (prop == "whatsThis") { w->setWhatsThis(v.asString()); return true; }
        if (prop == "minimumWidth") { w->setMinimumWidth(v.asInt()); return true; }
    }
    return false;
}
inline void simDumpBuiltinProperties(QObject *o, std::ostream &os)
{
    if (auto *w = dynamic_cast<QWidget *>(o)) {
        os << "state " << o->simName() << " windowTitle " << simRepr(w->windowTitle()) << "\n";
        os << "state " << o->simName() << " enabled " << simRepr(w->isEnabled()) << "\n";
        os << "state " << o->simName() << " visible " << simRepr(w->isVisible()) << "\n";
        os << "state " << o->simName() << " toolTip " << simRepr(w->toolTip()) << "\n";
        os << "state " << o->simName() << " statusTip " << simRepr(w->statusTip()) << "\n";
        os << "state " << o->simName() << " whatsThis " << simRepr(w->whatsThis()) << "\n";
        os << "state " << o->simName() << " minimumWidth " << simRepr(w->minimumWidth()) << "\n";
    }
    if (auto *d = dynamic_cast<QDialog *>(o))
        os << "state " << o->simName() << " sizeGripEnabled " << simRepr(d->isSizeGripEnabled()) << "\n";
}
inline bool simEmitBuiltinSignal(QObject *o, const std::string &sig, const std::vector<SimValue> &a)
{
    if (auto *d = dynamic_cast<QDialog *>(o)) {
        if (sig == "accepted()") { d->accepted(); return true; }
        if (sig == "rejected()") { d->rejected(); return true; }
        if (sig == "finished(int)" && a.size() == 1) { d->finished(a[0].asInt()); return true; }
    }
    if (auto *w = dynamic_cast<QWidget *>(o)) {
        if (sig == "windowTitleChanged(QString)" && a.size() == 1) { w->windowTitleChanged(a[0].asString()); return true; }
    }
    return false;
}
inline QObject *simCreateBuiltin(const std::string &cls, const char *name, void *where)
{
    if (cls == "QWidget") return where ? new (where) QWidget(name) : new QWidget(name);
    if (cls == "QDialog") return where ? new (where) QDialog(name) : new QDialog(name);
    return nullptr;
}
inline size_t simSizeOfBuiltin(const std::string &cls)
{
    if (cls == "QWidget") return sizeof(QWidget);
    if (cls == "QDialog") return sizeof(QDialog);
    return 0;
}
inline void simRegisterBuiltinSignals()
{
    simRegisterSignal(static_cast<void (QWidget::*)(const QString &)>(&QWidget::windowTitleChanged), "QWidget::windowTitleChanged(QString)");
    simRegisterSignal(static_cast<void (QDialog::*)()>(&QDialog::accepted), "QDialog::accepted()");
    simRegisterSignal(static_cast<void (QDialog::*)()>(&QDialog::rejected), "QDialog::rejected()");
    simRegisterSignal(static_cast<void (QDialog::*)(int)>(&QDialog::finished), "QDialog::finished(int)");
}

// provided by the generated dispatch header
inline bool simSetProperty(QObject *o, const std::string &prop, const SimValue &v);
inline void simDumpProperties(QObject *o, std::ostream &os);
inline bool simEmitSignal(QObject *o, const std::string &sig, const std::vector<SimValue> &a);
inline QObject *simCreate(const std::string &cls, const char *name, void *where);
inline size_t simSizeOf(const std::string &cls);


struct SimBlock { void *p; size_t size; };

inline void simObserve(std::ostream &os)
{
    auto &w = SimWorld::get();
    os << "begin-observe\n";
    std::vector<std::pair<std::string, QObject *>> objs(w.byName.begin(), w.byName.end());
    for (auto &kv : objs) simDumpProperties(kv.second, os);
    for (auto &t : w.trace) os << "trace " << t << "\n";
    for (auto &kv : objs) {
        for (auto &c : kv.second->simSenderConns()) {
            auto it = simSignalNames().find(c->key);
            os << "conn " << kv.first << " " << (it == simSignalNames().end() ? std::string("?") : it->second) << " "
               << (c->alive ? c->context->simName() : std::string("-")) << " " << (c->alive ? 1 : 0) << "\n";
        }
    }
    os << "stats slots=" << w.slotInvocationsTotal << " depth=" << w.maxDepth << "\n";
    os << "end-observe\n";
    w.trace.clear();
    w.slotInvocationsTotal = 0;
    w.maxDepth = 0;
}

inline int simRunHistory(const std::string &path, SimDocHooks &doc)
{
    std::ifstream in(path);
    if (!in) { std::printf("ABORT driver cannot-open-history\n"); return 2; }
    std::map<std::string, SimBlock> blocks;   // external objects: name -> storage
    std::map<std::string, SimBlock> graves;   // destroyed external objects, storage kept (and poisoned)
    std::string line;
    auto &w = SimWorld::get();
    std::ostream &os = std::cout;
    while (std::getline(in, line)) {
        if (line.empty() || line[0] == '#') continue;
        std::istringstream ss(line);
        std::string cmd;
        ss >> cmd;
        w.slotInvocations = 0;
        if (cmd == "CONSTRUCT") { doc.construct(); }
        else if (cmd == "SETUP") { doc.setup(); }
        else if (cmd == "OBSERVE") { simObserve(os); }
        else if (cmd == "MARK") { std::string m; ss >> m; os << "mark " << m << "\n"; }
        else if (cmd == "ALWAYS") { std::string p; int on; ss >> p >> on; w.alwaysEmits[p] = on != 0; }
        else if (cmd == "NEW") {
            std::string name, cls; ss >> name >> cls;
            size_t sz = simSizeOf(cls);
            if (!sz) simAbort("driver", ("unknown class " + cls).c_str());
            void *p = ::operator new(sz);
            char *nm = strdup(name.c_str());
            if (!simCreate(cls, nm, p)) simAbort("driver", "create failed");
            blocks[name] = SimBlock{p, sz};
        }
        else if (cmd == "SET") {
            std::string obj, prop, val; ss >> obj >> prop >> val;
            auto it = w.byName.find(obj);
            if (it == w.byName.end()) simAbort("driver", ("SET on unknown object " + obj).c_str());
            if (!simSetProperty(it->second, prop, simParseValue(val))) simAbort("driver", ("unknown property " + prop).c_str());
        }
        else if (cmd == "EMIT") {
            std::string obj, sig, tok; ss >> obj >> sig;
            std::vector<SimValue> args;
            while (ss >> tok) args.push_back(simParseValue(tok));
            auto it = w.byName.find(obj);
            if (it == w.byName.end()) simAbort("driver", ("EMIT on unknown object " + obj).c_str());
            if (!simEmitSignal(it->second, sig, args)) simAbort("driver", ("unknown signal " + sig).c_str());
        }
        else if (cmd == "DESTROY") {
            std::string name; ss >> name;
            auto it = blocks.find(name);
            if (it == blocks.end()) simAbort("driver", ("DESTROY of non-external " + name).c_str());
            QObject *o = w.byName[name];
            o->~QObject();
            SIM_POISON(it->second.p, it->second.size);
            graves[name] = it->second;
            blocks.erase(it);
        }
        else if (cmd == "REUSE") {
            // construct a new object at the address of a destroyed one (the ABA case)
            std::string grave, cls, name; ss >> grave >> cls >> name;
            auto it = graves.find(grave);
            if (it == graves.end()) simAbort("driver", ("REUSE of unknown grave " + grave).c_str());
            if (simSizeOf(cls) > it->second.size) simAbort("driver", "REUSE class too large for the grave");
            SIM_UNPOISON(it->second.p, it->second.size);
            char *nm = strdup(name.c_str());
            if (!simCreate(cls, nm, it->second.p)) simAbort("driver", "create failed");
            blocks[name] = it->second;
            graves.erase(it);
        }
        else simAbort("driver", ("unknown command " + cmd).c_str());
    }
    os << "DONE\n";
    os.flush();
    return 0;
}

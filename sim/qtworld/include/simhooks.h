#pragma once
#include <functional>
#include <string>
struct SimDocHooks
{
    std::function<void()> construct;   // create root + Ui struct + setupUi (constant properties)
    std::function<void()> setup;       // UiSupport::X::setup()
};

"""Reference model of World B: objects with property values and pointer links, an evaluator
for the documented qmluic semantics of the generated subset, reactive recomputation to the
(unique, because the worlds are stratified) fixed point, and an interpreter for handlers that
yields the expected effect trace.  Shares no code with qmluic.

Values: int/uint/enum/flags -> Python int; double -> float; bool -> bool; QString -> str;
QStringList -> tuple of str; pointers -> object name (str) or None; QFont -> dict.
"""
from . import simclasses as sc

I32_MIN, I32_MAX = -(1 << 31), (1 << 31) - 1


class Undefined(Exception):
    """evaluation that the documented semantics leaves undefined (never generated on purpose)"""


class Return(Exception):
    def __init__(self, value):
        self.value = value


class Break(Exception):
    pass


DEFAULTS = {"int": 0, "uint": 0, "double": 0.0, "bool": False, "QString": "", "QStringList": (),
            "SimWidget::Mode": 0, "SimWidget::Options": 0, "SimWidget*": None, "SimModel*": None}
BUILTIN_PROPS = {
    "QWidget": {"windowTitle": "", "enabled": True, "visible": False, "toolTip": "", "statusTip": "", "whatsThis": "", "minimumWidth": 0},
    "QDialog": {"windowTitle": "", "enabled": True, "visible": False, "toolTip": "", "statusTip": "", "whatsThis": "", "minimumWidth": 0, "sizeGripEnabled": False},
}
FONT_DEFAULT = {"family": "", "pointSize": -1, "weight": 50, "italic": False, "bold": False, "underline": False, "strikeOut": False, "kerning": True}
MODE_VALUE = {"SimWidget.ModeA": 0, "SimWidget.ModeB": 1, "SimWidget.ModeC": 2}
OPT_VALUE = {"SimWidget.OptA": 1, "SimWidget.OptB": 2, "SimWidget.OptC": 4}


def default_props(cls):
    if cls in BUILTIN_PROPS:
        return dict(BUILTIN_PROPS[cls])
    out = {}
    for p in sc.all_props(cls):
        if p["type"] == "QFont":
            out[p["name"]] = dict(FONT_DEFAULT)
        else:
            out[p["name"]] = sc.default_value(p)
    # SimWidget derives from QWidget
    out.update(BUILTIN_PROPS["QWidget"])
    if cls == "SimModel":
        for k in BUILTIN_PROPS["QWidget"]:
            out.pop(k, None)
    return out


def wrap_i32(v):
    if v < I32_MIN or v > I32_MAX:
        raise Undefined("32-bit overflow")
    return v


class World:
    def __init__(self):
        self.cls = {}        # object name -> class
        self.props = {}      # object name -> {prop: value}
        self.bindings = []   # [{"obj","target","sub" (font member or None),"body","layer"}] in evaluation order
        self.handlers = {}   # (obj, signal key) -> handler dict
        self.trace = []
        self.tr_context = ""
        self.active = False  # bindings only exist once setup() has run
        self.always = {}     # property name -> setter emits even when the value is unchanged (driver knob)
        self.handler_depth = 0
        self.max_handler_depth = 0
        self.notify_fired = 0

    def add_object(self, name, cls):
        self.cls[name] = cls
        self.props[name] = default_props(cls)

    def remove_object(self, name):
        del self.cls[name]
        del self.props[name]

    # ---------------------------------------------------------------- reactive part

    def recompute(self):
        """bindings to the fixed point; stratified, so one pass in layer order suffices"""
        for b in self.bindings:
            v = self.eval_body(b["body"], b["obj"], {})
            if b.get("sub"):
                self.props[b["obj"]][b["target"]] = dict(self.props[b["obj"]][b["target"]], **{b["sub"]: v})
            else:
                self.props[b["obj"]][b["target"]] = v

    def set_source(self, obj, prop, value, traced=True):
        if traced:
            self.trace.append(("set", obj, prop, value))
        old = self.props[obj][prop]
        self.props[obj][prop] = value
        if self.active:
            self.recompute()
            if old != value or self.always.get(prop):
                self.fire_notify(obj, prop, value)

    # ---------------------------------------------------------------- evaluator

    def eval_body(self, body, this, params):
        env = {"this": this, "locals": [dict(params)]}
        if body["kind"] == "expr":
            return self.ev(body["expr"], env)
        try:
            last = self.exec_block(body["stmts"], env)
        except Return as r:
            return r.value
        return last

    def lookup(self, env, name):
        for scope in reversed(env["locals"]):
            if name in scope:
                return scope
        return None

    def exec_block(self, stmts, env, new_scope=True):
        if new_scope:
            env["locals"].append({})
        last = None
        try:
            for s in stmts:
                last = self.exec_stmt(s, env)
        finally:
            if new_scope:
                env["locals"].pop()
        return last

    def exec_stmt(self, s, env):
        k = s[0]
        if k == "let":
            env["locals"][-1][s[1]] = self.ev(s[2], env)
            return None
        if k == "assign":
            sc_ = self.lookup(env, s[1])
            if sc_ is None:
                raise Undefined("assignment to undeclared " + s[1])
            sc_[s[1]] = self.ev(s[2], env)
            return None
        if k == "return":
            raise Return(self.ev(s[1], env) if s[1] is not None else None)
        if k == "expr":
            return self.ev(s[1], env)
        if k == "if":
            if self.ev(s[1], env):
                return self.exec_block(s[2], env)
            elif s[3] is not None:
                return self.exec_block(s[3], env)
            return None
        if k == "switch":
            d = self.ev(s[1], env)
            clauses = s[2]    # [(case ast or None for default, [stmts])]
            start = None
            for i, (c, _) in enumerate(clauses):
                if c is not None and self.ev(c, env) == d:
                    start = i
                    break
            if start is None:
                for i, (c, _) in enumerate(clauses):
                    if c is None:
                        start = i
                        break
            if start is None:
                return None
            env["locals"].append({})
            try:
                for c, body in clauses[start:]:
                    for st in body:
                        self.exec_stmt(st, env)
            except Break:
                pass
            finally:
                env["locals"].pop()
            return None
        if k == "break":
            raise Break()
        if k == "setprop":
            obj = self.ev(s[1], env) if s[1] is not None else env["this"]
            if obj is None:
                raise Undefined("write through null")
            v = self.ev(s[3], env)
            self.write_prop(obj, s[2], v)
            return None
        if k == "call":
            obj = self.ev(s[1], env) if s[1] is not None else env["this"]
            if obj is None:
                raise Undefined("call through null")
            args = [self.ev(a, env) for a in s[3]]
            self.call_slot(obj, s[2], args)
            return None
        if k == "log":
            args = [self.ev(a, env) for a in s[2]]
            self.trace.append(("log", s[1], tuple(args)))
            return None
        raise ValueError("stmt " + k)

    def write_prop(self, obj, prop, v):
        self.trace.append(("set", obj, prop, v))
        old = self.props[obj][prop]
        self.props[obj][prop] = v
        if self.active:
            self.recompute()
            if old != v or self.always.get(prop):
                self.fire_notify(obj, prop, v)

    def fire_notify(self, obj, prop, value):
        """a handler attached to the notify signal of a source property runs synchronously inside the setter"""
        cls = self.cls.get(obj)
        p = sc.find_prop(cls, prop) if cls in sc.BY_NAME else None
        if not p or not p["notify"]:
            return
        key = "%s(%s)" % (p["notify"][0], ",".join(p["notify"][1]))
        h = self.handlers.get((obj, key))
        if h is None:
            return
        self.notify_fired += 1
        params = {}
        for (pname, _t), v in zip(h["params"], [value]):
            params[pname] = v
        self.run_handler(h, obj, params)

    def call_slot(self, obj, name, args):
        self.trace.append(("call", obj, name, tuple(args)))
        cls = self.cls.get(obj)
        if cls in sc.BY_NAME and sc.BY_NAME[cls].get("real"):
            # slots of the real classes as the stubs implement them
            if name == "clear":
                self.write_prop(obj, "text", "")
            elif name == "toggle":
                self.write_prop(obj, "checked", not self.props[obj]["checked"])
            elif name in ("stepUp", "stepDown"):
                d = 1 if name == "stepUp" else -1
                v = self.props[obj]["value"] + d * self.props[obj]["singleStep"]
                self.write_prop(obj, "value", wrap_i32(v) if isinstance(v, int) else v)
            elif name == "reset":
                self.write_prop(obj, "value", self.props[obj]["minimum"])
            else:
                raise ValueError("slot " + name)
            return
        if name == "bump":
            self.write_prop(obj, "intVal", wrap_i32(self.props[obj]["intVal"] + args[0]))
        elif name == "say":
            self.write_prop(obj, "text", args[0])
        elif name == "reset":
            self.write_prop(obj, "intVal", 0)
            self.write_prop(obj, "flag", False)
        elif name == "lower":
            self.write_prop(obj, "level", wrap_i32(self.props[obj]["level"] - 1))
        elif name == "store":
            pass
        elif name in ("accept", "reject"):
            pass
        else:
            raise ValueError("slot " + name)

    def ev(self, e, env):
        k = e[0]
        if k == "lit":
            return e[2]
        if k == "null":
            return None
        if k == "enum":
            return MODE_VALUE[e[1]] if e[1] in MODE_VALUE else OPT_VALUE[e[1]]
        if k == "obj":
            return e[1]
        if k == "this":
            return env["this"]
        if k == "local":
            sc_ = self.lookup(env, e[1])
            if sc_ is None:
                raise Undefined("read of undeclared " + e[1])
            return sc_[e[1]]
        if k == "this_prop":
            return self.read(env["this"], e[1])
        if k == "prop":
            o = self.ev(e[1], env)
            if o is None:
                raise Undefined("null dereference")
            return self.read(o, e[2])
        if k == "upcast":
            return self.ev(e[2], env)
        if k == "un":
            a = self.ev(e[2], env)
            op = e[1]
            if op == "!":
                return not a
            if op == "-":
                return wrap_i32(-a) if isinstance(a, int) and not isinstance(a, bool) else -a
            if op == "+":
                return a
            if op == "~":
                return ~a
            raise ValueError(op)
        if k == "and":
            return bool(self.ev(e[1], env)) and bool(self.ev(e[2], env))
        if k == "or":
            return bool(self.ev(e[1], env)) or bool(self.ev(e[2], env))
        if k == "tern":
            return self.ev(e[2], env) if self.ev(e[1], env) else self.ev(e[3], env)
        if k == "bin":
            return self.binop(e[1], e[2], self.ev(e[3], env), self.ev(e[4], env))
        if k == "cast":
            a = self.ev(e[2], env)
            t = e[1]
            if t == "int":
                if isinstance(a, float):
                    return wrap_i32(int(a))      # C++ static_cast truncates toward zero
                return wrap_i32(int(a))
            if t == "uint":
                if a < 0:
                    raise Undefined("negative to uint")
                return int(a)
            if t == "double":
                return float(a)
            raise ValueError(t)
        if k == "max":
            return max(self.ev(e[1], env), self.ev(e[2], env))
        if k == "min":
            return min(self.ev(e[1], env), self.ev(e[2], env))
        if k == "tr":
            self.trace.append(("tr", self.tr_context, e[1]))
            return e[1]
        if k == "arg":
            s = self.ev(e[1], env)
            a = self.ev(e[2], env)
            return qstring_arg(s, a)
        if k == "isEmpty":
            return len(self.ev(e[1], env)) == 0
        if k == "list":
            return tuple(self.ev(x, env) for x in e[2])
        if k == "sub":
            lst = self.ev(e[1], env)
            i = self.ev(e[2], env)
            if i < 0 or i >= len(lst):
                raise Undefined("subscript out of range")
            return lst[i]
        raise ValueError("expr " + k)

    def read(self, obj, prop):
        if obj not in self.props:
            raise Undefined("read of destroyed object " + str(obj))
        if "." in prop:
            a, b = prop.split(".", 1)
            return self.props[obj][a][b]
        return self.props[obj][prop]

    def binop(self, ty, op, a, b):
        if op == "==":
            return a == b
        if op == "!=":
            return a != b
        if op in ("<", "<=", ">", ">="):
            if isinstance(a, str):
                a, b = a.encode("utf-8"), b.encode("utf-8")
            return {"<": a < b, "<=": a <= b, ">": a > b, ">=": a >= b}[op]
        if ty == "string":
            if op == "+":
                return a + b
        if ty == "bool":
            if op == "&":
                return a and b
            if op == "|":
                return a or b
            if op == "^":
                return a != b
        if ty in ("int", "uint", "mode", "opts"):
            if op == "+":
                r = a + b
            elif op == "-":
                r = a - b
            elif op == "*":
                r = a * b
            elif op == "/":
                if b == 0:
                    raise Undefined("division by zero")
                r = abs(a) // abs(b)
                if (a < 0) != (b < 0):
                    r = -r
            elif op == "%":
                if b == 0:
                    raise Undefined("modulo by zero")
                r = abs(a) % abs(b)
                if a < 0:
                    r = -r
            elif op == "&":
                r = a & b
            elif op == "|":
                r = a | b
            elif op == "^":
                r = a ^ b
            elif op == "<<":
                r = a << b
            elif op == ">>":
                r = a >> b
            else:
                raise ValueError(op)
            if ty == "uint":
                if r < 0 or r > 0xFFFFFFFF:
                    raise Undefined("uint out of range")
                return r
            return wrap_i32(r)
        if ty == "double":
            if op == "+":
                return a + b
            if op == "-":
                return a - b
            if op == "*":
                return a * b
            if op == "/":
                if b == 0:
                    raise Undefined("division by zero")
                return a / b
            if op == "%":
                if b == 0:
                    raise Undefined("modulo by zero")
                import math
                return math.fmod(a, b)    # sign of the dividend, like the constant folder's f64 %
        raise ValueError((ty, op))

    # ---------------------------------------------------------------- handlers

    def emit(self, obj, sigkey, args):
        """-> expected effect trace of emitting the signal (handler channels and all)"""
        h = self.handlers.get((obj, sigkey))
        if h is not None:
            params = {}
            for (pname, _pty), v in zip(h["params"], args):
                params[pname] = v
            self.run_handler(h, obj, params)
        return self.trace

    def run_handler(self, h, this, params):
        env = {"this": this, "locals": [dict(params)]}
        body = h["body"]
        self.handler_depth += 1
        if self.handler_depth > 64:
            raise Undefined("handler recursion")
        self.max_handler_depth = max(self.max_handler_depth, self.handler_depth)
        try:
            self._run_handler_body(body, env)
        finally:
            self.handler_depth -= 1

    def _run_handler_body(self, body, env):
        try:
            if body["kind"] == "expr_stmt":
                self.exec_stmt(body["stmt"], env)
            else:
                self.exec_block(body["stmts"], env)
        except Return:
            pass


def qstring_arg(s, a):
    """QString::arg: every occurrence of the lowest-numbered %n (1..99) is replaced"""
    if isinstance(a, bool):
        raise ValueError("bool arg")
    if isinstance(a, int):
        a = str(a)
    elif isinstance(a, float):
        a = "%g" % a
    lowest = 100
    i = 0
    b = s
    while i + 1 < len(b):
        if b[i] == "%" and b[i + 1].isdigit() and b[i + 1].isascii():
            n = int(b[i + 1])
            if i + 2 < len(b) and b[i + 2].isdigit() and b[i + 2].isascii():
                n = n * 10 + int(b[i + 2])
            if 1 <= n < lowest:
                lowest = n
        i += 1
    if lowest == 100:
        return s
    out = []
    i = 0
    while i < len(b):
        if b[i] == "%" and i + 1 < len(b) and b[i + 1].isdigit() and b[i + 1].isascii():
            n = int(b[i + 1])
            ln = 2
            if i + 2 < len(b) and b[i + 2].isdigit() and b[i + 2].isascii():
                n = n * 10 + int(b[i + 2])
                ln = 3
            if n == lowest:
                out.append(a)
                i += ln
                continue
        out.append(b[i])
        i += 1
    return "".join(out)

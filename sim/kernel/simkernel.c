/*
 * simkernel — a ptrace supervisor that puts one single-threaded tracee (the real
 * qmluic binary) behind a simulated system-call boundary.
 *
 *   simkernel --plan P --log L --stdout O --stderr E --cwd D
 *             [--max-calls N] [--timeout-ms T] [--env K=V]... -- argv...
 *
 * Always on:
 *   - ASLR off, scrubbed fixed environment, stdin=/dev/null
 *   - getrandom(2) results overwritten with SplitMix64(hash_seed)  => std's SipHash
 *     keys, hence every HashMap/HashSet iteration order in the tracee, are a function
 *     of hash_seed
 *   - every getdents64(2) batch sorted by name, then permuted by a PRNG seeded with
 *     dirent_seed => directory enumeration order is a function of dirent_seed
 * Faults (plan file, keyed by the index of the *interesting* call, see table below):
 *   KILL_BEFORE k | KILL_AFTER k | TORN_WRITE k n | ERR k ERRNO | EINTR k |
 *   SHORT_WRITE k n | SHORT_READ k n
 * Log: one line per interesting call, temp names normalised to .tmp#<n>, then the exit
 * disposition.  Two runs with the same plan, argv and file-system state yield
 * byte-identical logs.
 *
 * Own exit status: 0 tracee exited by itself, 3 tracee killed by plan,
 *                  4 step/time bound hit, 2 supervisor error.
 */
#define _GNU_SOURCE
#include <errno.h>
#include <fcntl.h>
#include <signal.h>
#include <stdarg.h>
#include <stdint.h>
#include <stdio.h>
#include <stdlib.h>
#include <string.h>
#include <sys/personality.h>
#include <sys/ptrace.h>
#include <sys/resource.h>
#include <sys/syscall.h>
#include <sys/types.h>
#include <sys/uio.h>
#include <sys/user.h>
#include <sys/wait.h>
#include <unistd.h>

#define MAXFD 256
#define MAXFAULT 64
#define MAXTMP 256

enum fkind { F_NONE, F_KILL_BEFORE, F_KILL_AFTER, F_TORN_WRITE, F_ERR, F_SHORT_WRITE, F_SHORT_READ, F_EINTR };
struct fault { long idx; enum fkind kind; long arg; int fired; };

static struct fault faults[MAXFAULT];
static int nfaults;
static uint64_t hash_seed = 1, dirent_seed = 1;
static long env_pad = 0;
static long max_calls = 20000;
static long timeout_ms = 60000;   /* wall-clock backstop only: no check decides anything by it */
static long cpu_ms = 0;           /* CPU-time bound of the tracee (RLIMIT_CPU): independent of the load of the machine */
static FILE *lgf;
static pid_t child;
static char cwd[4096];
static char *fdpath[MAXFD];
static char tmpnames[MAXTMP][16];
static int ntmp;
static volatile sig_atomic_t timed_out;

static void die(const char *fmt, ...) {
    va_list ap; va_start(ap, fmt);
    fprintf(stderr, "simkernel: "); vfprintf(stderr, fmt, ap); fprintf(stderr, "\n");
    va_end(ap);
    if (child > 0) kill(child, SIGKILL);
    if (timed_out) {
        /* the backstop fired between a stop and the next ptrace request: the tracee is gone, not the supervisor broken */
        if (lgf) { fprintf(lgf, "exit bound=time\n"); fclose(lgf); }
        exit(4);
    }
    if (lgf) { fprintf(lgf, "supervisor-error\n"); fclose(lgf); }
    exit(2);
}

static uint64_t splitmix(uint64_t *s) {
    uint64_t z = (*s += 0x9E3779B97F4A7C15ULL);
    z = (z ^ (z >> 30)) * 0xBF58476D1CE4E5B9ULL;
    z = (z ^ (z >> 27)) * 0x94D049BB133111EBULL;
    return z ^ (z >> 31);
}

static const struct { const char *name; int no; } errnames[] = {
    {"EPERM", EPERM}, {"ENOENT", ENOENT}, {"EINTR", EINTR}, {"EIO", EIO}, {"EBADF", EBADF},
    {"EAGAIN", EAGAIN}, {"ENOMEM", ENOMEM}, {"EACCES", EACCES}, {"EEXIST", EEXIST},
    {"EXDEV", EXDEV}, {"ENOTDIR", ENOTDIR}, {"EISDIR", EISDIR}, {"EINVAL", EINVAL},
    {"ENFILE", ENFILE}, {"EMFILE", EMFILE}, {"EFBIG", EFBIG}, {"ENOSPC", ENOSPC},
    {"EROFS", EROFS}, {"EMLINK", EMLINK}, {"ENAMETOOLONG", ENAMETOOLONG},
    {"ENOTEMPTY", ENOTEMPTY}, {"ELOOP", ELOOP}, {"EDQUOT", EDQUOT}, {"ENOSYS", ENOSYS},
    {"EBUSY", EBUSY}, {"ETXTBSY", ETXTBSY}, {NULL, 0}};

static int errno_by_name(const char *s) {
    for (int i = 0; errnames[i].name; i++) if (!strcmp(errnames[i].name, s)) return errnames[i].no;
    return atoi(s);
}

static void read_plan(const char *path) {
    FILE *f = fopen(path, "r");
    if (!f) die("cannot open plan %s", path);
    char line[512];
    while (fgets(line, sizeof line, f)) {
        char a[64], b[64], c[64];
        int n = sscanf(line, "%63s %63s %63s", a, b, c);
        if (n < 1 || a[0] == '#') continue;
        if (!strcmp(a, "hash_seed") && n >= 2) hash_seed = strtoull(b, NULL, 10);
        else if (!strcmp(a, "dirent_seed") && n >= 2) dirent_seed = strtoull(b, NULL, 10);
        else if (!strcmp(a, "env_pad") && n >= 2) env_pad = atol(b);
        else if (!strcmp(a, "fault")) {
            char k[64], x[64] = "";
            long idx;
            int m = sscanf(line, "%*s %ld %63s %63s", &idx, k, x);
            if (m < 2 || nfaults >= MAXFAULT) die("bad fault line: %s", line);
            struct fault *ft = &faults[nfaults++];
            ft->idx = idx; ft->arg = 0; ft->fired = 0;
            if (!strcmp(k, "KILL_BEFORE")) ft->kind = F_KILL_BEFORE;
            else if (!strcmp(k, "KILL_AFTER")) ft->kind = F_KILL_AFTER;
            else if (!strcmp(k, "TORN_WRITE")) { ft->kind = F_TORN_WRITE; ft->arg = atol(x); }
            else if (!strcmp(k, "ERR")) { ft->kind = F_ERR; ft->arg = errno_by_name(x); }
            else if (!strcmp(k, "EINTR")) { ft->kind = F_EINTR; ft->arg = EINTR; }
            else if (!strcmp(k, "SHORT_WRITE")) { ft->kind = F_SHORT_WRITE; ft->arg = atol(x); }
            else if (!strcmp(k, "SHORT_READ")) { ft->kind = F_SHORT_READ; ft->arg = atol(x); }
            else die("unknown fault kind %s", k);
        } else die("bad plan line: %s", line);
    }
    fclose(f);
}

static struct fault *fault_at(long idx) {
    for (int i = 0; i < nfaults; i++) if (faults[i].idx == idx && !faults[i].fired) return &faults[i];
    return NULL;
}

/* ---- tracee memory ---- */
static ssize_t peek(uint64_t addr, void *buf, size_t len) {
    struct iovec l = {buf, len}, r = {(void *)addr, len};
    return process_vm_readv(child, &l, 1, &r, 1, 0);
}
static ssize_t poke(uint64_t addr, const void *buf, size_t len) {
    struct iovec l = {(void *)buf, len}, r = {(void *)addr, len};
    ssize_t n = process_vm_writev(child, &l, 1, &r, 1, 0);
    if (n == (ssize_t)len) return n;
    /* fall back to POKEDATA (word-wise) */
    size_t off = 0;
    while (off < len) {
        long word;
        size_t chunk = len - off < sizeof(long) ? len - off : sizeof(long);
        if (chunk < sizeof(long)) {
            errno = 0;
            word = ptrace(PTRACE_PEEKDATA, child, (void *)(addr + off), 0);
            if (errno) return -1;
        }
        memcpy(&word, (const char *)buf + off, chunk);
        if (ptrace(PTRACE_POKEDATA, child, (void *)(addr + off), (void *)word) < 0) return -1;
        off += chunk;
    }
    return (ssize_t)len;
}
static void peek_str(uint64_t addr, char *out, size_t cap) {
    size_t n = 0;
    out[0] = 0;
    if (!addr) { snprintf(out, cap, "(null)"); return; }
    while (n + 1 < cap) {
        size_t page_left = 4096 - ((addr + n) & 4095);
        size_t want = page_left < cap - 1 - n ? page_left : cap - 1 - n;
        ssize_t got = peek(addr + n, out + n, want);
        if (got <= 0) break;
        for (ssize_t i = 0; i < got; i++) if (out[n + i] == 0) return;
        n += (size_t)got;
    }
    out[n] = 0;
}

/* ---- path helpers ---- */
static int is_tmp_component(const char *s, size_t len) {
    if (len != 10 || strncmp(s, ".tmp", 4)) return 0;
    for (int i = 4; i < 10; i++) {
        char c = s[i];
        if (!((c >= '0' && c <= '9') || (c >= 'a' && c <= 'z') || (c >= 'A' && c <= 'Z'))) return 0;
    }
    return 1;
}
static int tmp_number(const char *s) {
    for (int i = 0; i < ntmp; i++) if (!strncmp(tmpnames[i], s, 10)) return i;
    if (ntmp < MAXTMP) { memcpy(tmpnames[ntmp], s, 10); tmpnames[ntmp][10] = 0; return ntmp++; }
    return MAXTMP;
}
/* write the path with temp components normalised, and with spaces/newlines escaped */
static void log_path(const char *p) {
    const char *s = p;
    while (*s) {
        const char *e = strchr(s, '/');
        size_t len = e ? (size_t)(e - s) : strlen(s);
        if (is_tmp_component(s, len)) fprintf(lgf, ".tmp#%d", tmp_number(s));
        else for (size_t i = 0; i < len; i++) {
            unsigned char c = (unsigned char)s[i];
            if (c <= ' ' || c == '%' || c >= 127) fprintf(lgf, "%%%02X", c); else fputc(c, lgf);
        }
        if (!e) break;
        fputc('/', lgf);
        s = e + 1;
    }
}
static void abs_path(long dirfd, const char *raw, char *out, size_t cap) {
    if (raw[0] == '/') { snprintf(out, cap, "%s", raw); return; }
    const char *base = cwd;
    if (dirfd != AT_FDCWD && dirfd >= 0 && dirfd < MAXFD && fdpath[dirfd]) base = fdpath[dirfd];
    if (raw[0] == 0) snprintf(out, cap, "%s", base);
    else snprintf(out, cap, "%s/%s", base, raw);
}
static void set_fd(long fd, const char *p) {
    if (fd < 0 || fd >= MAXFD) return;
    free(fdpath[fd]);
    fdpath[fd] = p ? strdup(p) : NULL;
}
static void log_fd(long fd) {
    fprintf(lgf, "fd%ld=", fd);
    if (fd >= 0 && fd < MAXFD && fdpath[fd]) log_path(fdpath[fd]);
    else if (fd == 0) fprintf(lgf, "<stdin>");
    else if (fd == 1) fprintf(lgf, "<stdout>");
    else if (fd == 2) fprintf(lgf, "<stderr>");
    else fprintf(lgf, "?");
}

/* ---- syscall table ---- */
enum shape { S_PATH, S_PATHAT, S_PATH2, S_PATH2AT, S_SYMLINKAT, S_FD, S_RW, S_RWV, S_OPEN, S_OPENAT, S_CREAT,
             S_CLOSE, S_GETDENTS, S_GETRANDOM, S_GETCWD, S_EXIT, S_DUP, S_DUP2, S_FCNTL, S_CHDIR };
struct sysdesc { long nr; const char *name; enum shape shape; int interesting; };
static const struct sysdesc table[] = {
    {SYS_open, "open", S_OPEN, 1}, {SYS_openat, "openat", S_OPENAT, 1}, {SYS_creat, "creat", S_CREAT, 1},
#ifdef SYS_openat2
    {SYS_openat2, "openat2", S_OPENAT, 1},
#endif
    {SYS_read, "read", S_RW, 1}, {SYS_pread64, "pread64", S_RW, 1},
    {SYS_write, "write", S_RW, 1}, {SYS_pwrite64, "pwrite64", S_RW, 1},
    {SYS_readv, "readv", S_RWV, 1}, {SYS_writev, "writev", S_RWV, 1},
    {SYS_close, "close", S_CLOSE, 1},
    {SYS_stat, "stat", S_PATH, 1}, {SYS_lstat, "lstat", S_PATH, 1}, {SYS_fstat, "fstat", S_FD, 1},
    {SYS_newfstatat, "newfstatat", S_PATHAT, 1}, {SYS_statx, "statx", S_PATHAT, 1},
    {SYS_access, "access", S_PATH, 1}, {SYS_faccessat, "faccessat", S_PATHAT, 1},
#ifdef SYS_faccessat2
    {SYS_faccessat2, "faccessat2", S_PATHAT, 1},
#endif
    {SYS_getdents64, "getdents64", S_GETDENTS, 1},
    {SYS_rename, "rename", S_PATH2, 1}, {SYS_renameat, "renameat", S_PATH2AT, 1},
    {SYS_renameat2, "renameat2", S_PATH2AT, 1},
    {SYS_mkdir, "mkdir", S_PATH, 1}, {SYS_mkdirat, "mkdirat", S_PATHAT, 1},
    {SYS_unlink, "unlink", S_PATH, 1}, {SYS_unlinkat, "unlinkat", S_PATHAT, 1}, {SYS_rmdir, "rmdir", S_PATH, 1},
    {SYS_chmod, "chmod", S_PATH, 1}, {SYS_fchmod, "fchmod", S_FD, 1}, {SYS_fchmodat, "fchmodat", S_PATHAT, 1},
    {SYS_link, "link", S_PATH2, 1}, {SYS_linkat, "linkat", S_PATH2AT, 1},
    {SYS_symlink, "symlink", S_PATH2, 1}, {SYS_symlinkat, "symlinkat", S_SYMLINKAT, 1},
    {SYS_readlink, "readlink", S_PATH, 1}, {SYS_readlinkat, "readlinkat", S_PATHAT, 1},
    {SYS_fsync, "fsync", S_FD, 1}, {SYS_fdatasync, "fdatasync", S_FD, 1},
    {SYS_truncate, "truncate", S_PATH, 1}, {SYS_ftruncate, "ftruncate", S_FD, 1},
    {SYS_getcwd, "getcwd", S_GETCWD, 1}, {SYS_getrandom, "getrandom", S_GETRANDOM, 1},
    {SYS_exit_group, "exit_group", S_EXIT, 1}, {SYS_exit, "exit", S_EXIT, 1},
    {SYS_chdir, "chdir", S_CHDIR, 1},
    {SYS_dup, "dup", S_DUP, 0}, {SYS_dup2, "dup2", S_DUP2, 0}, {SYS_dup3, "dup3", S_DUP2, 0},
    {SYS_fcntl, "fcntl", S_FCNTL, 0},
    {-1, NULL, 0, 0}};

static const struct sysdesc *lookup(long nr) {
    for (int i = 0; table[i].name; i++) if (table[i].nr == nr) return &table[i];
    return NULL;
}

static void log_open_flags(long flags) {
    int acc = flags & O_ACCMODE;
    fprintf(lgf, " %s", acc == O_RDONLY ? "rd" : acc == O_WRONLY ? "wr" : "rw");
    if (flags & O_CREAT) fprintf(lgf, "+creat");
    if (flags & O_EXCL) fprintf(lgf, "+excl");
    if (flags & O_TRUNC) fprintf(lgf, "+trunc");
    if (flags & O_APPEND) fprintf(lgf, "+append");
    if ((flags & O_DIRECTORY) == O_DIRECTORY) fprintf(lgf, "+dir");
#ifdef O_TMPFILE
    if ((flags & O_TMPFILE) == O_TMPFILE) fprintf(lgf, "+tmpfile");
#endif
}

/* ---- getdents64 rewriting ---- */
struct dent { uint64_t ino; int64_t off; uint16_t reclen; uint8_t type; char *name; char *raw; };
static int dent_cmp(const void *a, const void *b) {
    return strcmp(((const struct dent *)a)->name, ((const struct dent *)b)->name);
}
static uint64_t dirent_state;
static void rewrite_getdents(uint64_t bufaddr, long nbytes) {
    if (nbytes <= 0 || nbytes > (1 << 20)) return;
    char *buf = malloc((size_t)nbytes), *out = malloc((size_t)nbytes);
    if (peek(bufaddr, buf, (size_t)nbytes) != nbytes) die("peek getdents");
    struct dent ents[4096];
    int n = 0;
    long pos = 0;
    while (pos < nbytes && n < 4096) {
        struct dent *d = &ents[n];
        memcpy(&d->ino, buf + pos, 8);
        memcpy(&d->off, buf + pos + 8, 8);
        memcpy(&d->reclen, buf + pos + 16, 2);
        d->type = (uint8_t)buf[pos + 18];
        d->name = buf + pos + 19;
        d->raw = buf + pos;
        if (d->reclen == 0) break;
        pos += d->reclen;
        n++;
    }
    int64_t offs[4096];
    for (int i = 0; i < n; i++) offs[i] = ents[i].off;
    qsort(ents, (size_t)n, sizeof ents[0], dent_cmp);
    for (int i = n - 1; i > 0; i--) { /* Fisher-Yates driven by dirent_seed */
        int j = (int)(splitmix(&dirent_state) % (uint64_t)(i + 1));
        struct dent t = ents[i]; ents[i] = ents[j]; ents[j] = t;
    }
    long o = 0;
    for (int i = 0; i < n; i++) {
        memcpy(out + o, ents[i].raw, ents[i].reclen);
        memcpy(out + o + 8, &offs[i], 8);
        o += ents[i].reclen;
    }
    if (o != pos) die("getdents repack size mismatch");
    if (poke(bufaddr, out, (size_t)o) != o) die("poke getdents");
    free(buf); free(out);
}

static void on_alarm(int sig) { (void)sig; timed_out = 1; if (child > 0) kill(child, SIGKILL); }

int main(int argc, char **argv) {
    const char *plan = NULL, *logp = NULL, *outp = "/dev/null", *errp = "/dev/null";
    char *extra_env[64]; int nextra = 0;
    int i = 1;
    cwd[0] = 0;
    for (; i < argc; i++) {
        if (!strcmp(argv[i], "--")) { i++; break; }
        if (i + 1 >= argc) die("missing value for %s", argv[i]);
        if (!strcmp(argv[i], "--plan")) plan = argv[++i];
        else if (!strcmp(argv[i], "--log")) logp = argv[++i];
        else if (!strcmp(argv[i], "--stdout")) outp = argv[++i];
        else if (!strcmp(argv[i], "--stderr")) errp = argv[++i];
        else if (!strcmp(argv[i], "--cwd")) snprintf(cwd, sizeof cwd, "%s", argv[++i]);
        else if (!strcmp(argv[i], "--max-calls")) max_calls = atol(argv[++i]);
        else if (!strcmp(argv[i], "--timeout-ms")) timeout_ms = atol(argv[++i]);
        else if (!strcmp(argv[i], "--cpu-ms")) cpu_ms = atol(argv[++i]);
        else if (!strcmp(argv[i], "--env")) { if (nextra < 60) extra_env[nextra++] = argv[++i]; }
        else die("unknown option %s", argv[i]);
    }
    if (i >= argc || !logp || !cwd[0]) die("usage: simkernel --plan P --log L --cwd D [...] -- argv...");
    if (plan) read_plan(plan);
    lgf = fopen(logp, "w");
    if (!lgf) die("cannot open log %s", logp);
    dirent_state = dirent_seed * 0x9E3779B97F4A7C15ULL + 0x1234567;
    uint64_t rnd_state = hash_seed * 0xD1342543DE82EF95ULL + 0x7654321;

    child = fork();
    if (child < 0) die("fork");
    if (child == 0) {
        personality(ADDR_NO_RANDOMIZE);
        if (cpu_ms > 0) {
            struct rlimit rl;
            rl.rlim_cur = (rlim_t)((cpu_ms + 999) / 1000);
            rl.rlim_max = rl.rlim_cur + 1;
            setrlimit(RLIMIT_CPU, &rl);
        }
        if (chdir(cwd) < 0) _exit(126);
        int fd = open("/dev/null", O_RDONLY); dup2(fd, 0); close(fd);
        fd = open(outp, O_WRONLY | O_CREAT | O_TRUNC, 0644); if (fd < 0) _exit(126); dup2(fd, 1); close(fd);
        fd = open(errp, O_WRONLY | O_CREAT | O_TRUNC, 0644); if (fd < 0) _exit(126); dup2(fd, 2); close(fd);
        for (fd = 3; fd < 64; fd++) close(fd);
        char *envp[80]; int ne = 0;
        envp[ne++] = "NO_COLOR=1"; envp[ne++] = "LC_ALL=C"; envp[ne++] = "TERM=dumb";
        envp[ne++] = "PATH=/usr/bin:/bin"; envp[ne++] = "HOME=/nonexistent";
        char *pad = malloc((size_t)env_pad + 16);
        strcpy(pad, "VERIF_PAD=");
        memset(pad + 10, 'x', (size_t)env_pad); pad[10 + env_pad] = 0;
        envp[ne++] = pad;
        for (int k = 0; k < nextra; k++) envp[ne++] = extra_env[k];
        envp[ne] = NULL;
        ptrace(PTRACE_TRACEME, 0, 0, 0);
        raise(SIGSTOP);
        execve(argv[i], argv + i, envp);
        _exit(127);
    }

    int status;
    if (waitpid(child, &status, 0) < 0 || !WIFSTOPPED(status)) die("tracee did not stop");
    if (ptrace(PTRACE_SETOPTIONS, child, 0,
               PTRACE_O_TRACESYSGOOD | PTRACE_O_EXITKILL | PTRACE_O_TRACECLONE | PTRACE_O_TRACEFORK |
                   PTRACE_O_TRACEVFORK | PTRACE_O_TRACEEXEC) < 0)
        die("PTRACE_SETOPTIONS: %s", strerror(errno));
    signal(SIGALRM, on_alarm);
    alarm((unsigned)((timeout_ms + 999) / 1000));

    long idx = 0;            /* number of interesting calls seen */
    int killed_by_plan = 0, bound_hit = 0;
    int pending_sig = 0;
    /* per-call state between entry and exit */
    const struct sysdesc *cur = NULL;
    long cur_idx = -1;
    struct fault *cur_fault = NULL;
    int cur_skipped = 0;
    uint64_t a[6];
    char p1[4200], p2[4200], raw[4100];
    int seen_exec = 0;

    for (;;) {
        if (ptrace(PTRACE_SYSCALL, child, 0, (void *)(long)pending_sig) < 0) {
            if (errno == ESRCH) { /* gone (killed) */ }
            else die("PTRACE_SYSCALL: %s", strerror(errno));
        }
        pending_sig = 0;
        if (waitpid(child, &status, __WALL) < 0) die("waitpid: %s", strerror(errno));
        if (WIFEXITED(status)) { fprintf(lgf, "exit status=%d\n", WEXITSTATUS(status)); break; }
        if (WIFSIGNALED(status)) {
            if (timed_out) { fprintf(lgf, "exit bound=time\n"); bound_hit = 1; }
            else if (cpu_ms > 0 && !killed_by_plan && (WTERMSIG(status) == SIGXCPU || WTERMSIG(status) == SIGKILL)) { fprintf(lgf, "exit bound=cpu\n"); bound_hit = 1; }
            else fprintf(lgf, "exit signal=%d\n", WTERMSIG(status));
            break;
        }
        if (!WIFSTOPPED(status)) continue;
        int sig = WSTOPSIG(status);
        if (sig == (SIGTRAP | 0x80)) {
            struct __ptrace_syscall_info info;
            if (ptrace(PTRACE_GET_SYSCALL_INFO, child, (void *)sizeof info, &info) < 0) die("GET_SYSCALL_INFO");
            if (info.op == PTRACE_SYSCALL_INFO_ENTRY) {
                if (!seen_exec) { cur = NULL; continue; }
                cur = lookup((long)info.entry.nr);
                cur_fault = NULL; cur_skipped = 0; cur_idx = -1;
                if (!cur) continue;
                for (int k = 0; k < 6; k++) a[k] = info.entry.args[k];
                p1[0] = p2[0] = 0;
                switch (cur->shape) {
                case S_PATH: case S_OPEN: case S_CREAT: case S_CHDIR:
                    peek_str(a[0], raw, sizeof raw); abs_path(AT_FDCWD, raw, p1, sizeof p1); break;
                case S_PATHAT: case S_OPENAT:
                    peek_str(a[1], raw, sizeof raw); abs_path((long)(int)a[0], raw, p1, sizeof p1); break;
                case S_PATH2:
                    peek_str(a[0], raw, sizeof raw); abs_path(AT_FDCWD, raw, p1, sizeof p1);
                    peek_str(a[1], raw, sizeof raw); abs_path(AT_FDCWD, raw, p2, sizeof p2); break;
                case S_PATH2AT:
                    peek_str(a[1], raw, sizeof raw); abs_path((long)(int)a[0], raw, p1, sizeof p1);
                    peek_str(a[3], raw, sizeof raw); abs_path((long)(int)a[2], raw, p2, sizeof p2); break;
                case S_SYMLINKAT:
                    peek_str(a[0], p1, sizeof p1);
                    peek_str(a[2], raw, sizeof raw); abs_path((long)(int)a[1], raw, p2, sizeof p2); break;
                default: break;
                }
                if (!cur->interesting) continue;
                cur_idx = idx++;
                if (idx > max_calls) {
                    fprintf(lgf, "exit bound=calls\n"); bound_hit = 1;
                    kill(child, SIGKILL); waitpid(child, &status, __WALL); break;
                }
                cur_fault = fault_at(cur_idx);
                if (cur->shape == S_EXIT) {
                    fprintf(lgf, "%ld %s %ld", cur_idx, cur->name, (long)(int)a[0]);
                    if (cur_fault && cur_fault->kind == F_KILL_BEFORE) {
                        cur_fault->fired = 1;
                        fprintf(lgf, " -> !KILL_BEFORE\n");
                        kill(child, SIGKILL); waitpid(child, &status, __WALL);
                        fprintf(lgf, "exit signal=9\n"); killed_by_plan = 1; break;
                    }
                    fprintf(lgf, "\n");
                    continue;
                }
                if (cur_fault) {
                    struct user_regs_struct regs;
                    switch (cur_fault->kind) {
                    case F_KILL_BEFORE:
                        break; /* handled below after logging the call */
                    case F_EINTR:
                        /* only calls that POSIX lets fail with EINTR and that callers are expected to retry */
                        if (!(cur->nr == SYS_read || cur->nr == SYS_pread64 || cur->nr == SYS_write ||
                              cur->nr == SYS_pwrite64 || cur->nr == SYS_open || cur->nr == SYS_openat)) { cur_fault = NULL; break; }
                        /* opening a local directory never blocks, and opendir(3) callers do not retry: not a realistic fault */
                        if ((cur->nr == SYS_open && (a[1] & O_DIRECTORY) == O_DIRECTORY) ||
                            (cur->nr == SYS_openat && (a[2] & O_DIRECTORY) == O_DIRECTORY)) { cur_fault = NULL; break; }
                        /* fall through */
                    case F_ERR:
                        if (ptrace(PTRACE_GETREGS, child, 0, &regs) < 0) die("GETREGS");
                        regs.orig_rax = (unsigned long long)-1;
                        if (ptrace(PTRACE_SETREGS, child, 0, &regs) < 0) die("SETREGS");
                        cur_skipped = 1;
                        break;
                    case F_TORN_WRITE: case F_SHORT_WRITE: case F_SHORT_READ: {
                        int is_write = cur->nr == SYS_write || cur->nr == SYS_pwrite64;
                        int is_read = cur->nr == SYS_read || cur->nr == SYS_pread64;
                        if ((cur_fault->kind == F_SHORT_READ && !is_read) ||
                            (cur_fault->kind != F_SHORT_READ && !is_write)) { cur_fault = NULL; break; }
                        long want = cur_fault->arg;
                        if (cur_fault->kind != F_TORN_WRITE && want < 1) want = 1;
                        if ((uint64_t)want < a[2]) {
                            if (ptrace(PTRACE_GETREGS, child, 0, &regs) < 0) die("GETREGS");
                            regs.rdx = (unsigned long long)want;
                            if (ptrace(PTRACE_SETREGS, child, 0, &regs) < 0) die("SETREGS");
                        } else if (cur_fault->kind != F_TORN_WRITE) cur_fault = NULL; /* nothing to shorten */
                        break;
                    }
                    default: break;
                    }
                }
                if (cur_fault && cur_fault->kind == F_KILL_BEFORE) {
                    /* log the call that never executes, then kill */
                    cur_fault->fired = 1;
                    fprintf(lgf, "%ld %s ", cur_idx, cur->name);
                    switch (cur->shape) {
                    case S_PATH: case S_PATHAT: case S_OPEN: case S_OPENAT: case S_CREAT: case S_CHDIR:
                        log_path(p1);
                        if (cur->shape == S_OPEN) log_open_flags((long)a[1]);
                        if (cur->shape == S_OPENAT && cur->nr == SYS_openat) log_open_flags((long)a[2]);
                        break;
                    case S_PATH2: case S_PATH2AT: case S_SYMLINKAT:
                        log_path(p1); fputc(' ', lgf); log_path(p2); break;
                    case S_FD: case S_CLOSE: case S_GETDENTS: log_fd((long)(int)a[0]); break;
                    case S_RW: log_fd((long)(int)a[0]); fprintf(lgf, " len=%llu", (unsigned long long)a[2]); break;
                    case S_RWV: log_fd((long)(int)a[0]); break;
                    default: break;
                    }
                    fprintf(lgf, " -> !KILL_BEFORE\n");
                    kill(child, SIGKILL); waitpid(child, &status, __WALL);
                    fprintf(lgf, "exit signal=9\n"); killed_by_plan = 1; break;
                }
            } else if (info.op == PTRACE_SYSCALL_INFO_EXIT) {
                if (!cur) continue;
                long rv = (long)info.exit.rval;
                if (cur_skipped && cur_fault) {
                    struct user_regs_struct regs;
                    if (ptrace(PTRACE_GETREGS, child, 0, &regs) < 0) die("GETREGS");
                    regs.rax = (unsigned long long)(-(long)cur_fault->arg);
                    if (ptrace(PTRACE_SETREGS, child, 0, &regs) < 0) die("SETREGS");
                    rv = -(long)cur_fault->arg;
                }
                /* bookkeeping for non-interesting fd-duplicating calls */
                if (!cur->interesting) {
                    if (rv >= 0) {
                        if (cur->shape == S_DUP || cur->shape == S_DUP2) {
                            long src = (long)(int)a[0];
                            set_fd(rv, src >= 0 && src < MAXFD ? fdpath[src] : NULL);
                        } else if (cur->shape == S_FCNTL && (a[1] == F_DUPFD || a[1] == F_DUPFD_CLOEXEC)) {
                            long src = (long)(int)a[0];
                            set_fd(rv, src >= 0 && src < MAXFD ? fdpath[src] : NULL);
                        }
                    }
                    cur = NULL; continue;
                }
                fprintf(lgf, "%ld %s ", cur_idx, cur->name);
                switch (cur->shape) {
                case S_OPEN: case S_OPENAT: case S_CREAT:
                    log_path(p1);
                    if (cur->shape == S_OPEN) log_open_flags((long)a[1]);
                    else if (cur->nr == SYS_openat) log_open_flags((long)a[2]);
                    else if (cur->shape == S_CREAT) fprintf(lgf, " wr+creat+trunc");
                    else fprintf(lgf, " openat2");
                    if (rv >= 0) set_fd(rv, p1);
                    break;
                case S_PATH: case S_PATHAT:
                    log_path(p1);
                    if (cur->nr == SYS_unlinkat && (a[2] & AT_REMOVEDIR)) fprintf(lgf, " rmdir");
                    if (cur->nr == SYS_mkdir) fprintf(lgf, " %04o", (unsigned)a[1]);
                    if (cur->nr == SYS_mkdirat) fprintf(lgf, " %04o", (unsigned)a[2]);
                    if (cur->nr == SYS_chmod) fprintf(lgf, " %04o", (unsigned)a[1]);
                    if (cur->nr == SYS_fchmodat) fprintf(lgf, " %04o", (unsigned)a[2]);
                    break;
                case S_CHDIR:
                    log_path(p1);
                    if (rv == 0) snprintf(cwd, sizeof cwd, "%s", p1);
                    break;
                case S_PATH2: case S_PATH2AT: case S_SYMLINKAT:
                    log_path(p1); fputc(' ', lgf); log_path(p2); break;
                case S_FD:
                    log_fd((long)(int)a[0]);
                    if (cur->nr == SYS_fchmod) fprintf(lgf, " %04o", (unsigned)a[1]);
                    if (cur->nr == SYS_ftruncate) fprintf(lgf, " len=%llu", (unsigned long long)a[1]);
                    break;
                case S_CLOSE:
                    log_fd((long)(int)a[0]);
                    if (rv == 0 || !cur_skipped) set_fd((long)(int)a[0], NULL);
                    break;
                case S_RW:
                    log_fd((long)(int)a[0]);
                    fprintf(lgf, " len=%llu", (unsigned long long)a[2]);
                    break;
                case S_RWV:
                    log_fd((long)(int)a[0]); fprintf(lgf, " iovcnt=%llu", (unsigned long long)a[2]); break;
                case S_GETDENTS:
                    log_fd((long)(int)a[0]);
                    if (rv > 0) rewrite_getdents(a[1], rv);
                    break;
                case S_GETRANDOM:
                    fprintf(lgf, "len=%llu", (unsigned long long)a[1]);
                    if (rv > 0) {
                        unsigned char rb[4096];
                        long n = rv > (long)sizeof rb ? (long)sizeof rb : rv;
                        for (long k = 0; k < n; k += 8) {
                            uint64_t v = splitmix(&rnd_state);
                            memcpy(rb + k, &v, (size_t)(n - k < 8 ? n - k : 8));
                        }
                        if (poke(a[0], rb, (size_t)n) != n) die("poke getrandom");
                    }
                    break;
                case S_GETCWD: fprintf(lgf, "-"); break;
                default: break;
                }
                fprintf(lgf, " -> %ld", rv);
                if (cur_fault) {
                    cur_fault->fired = 1;
                    switch (cur_fault->kind) {
                    case F_ERR: fprintf(lgf, " !ERR"); break;
                    case F_EINTR: fprintf(lgf, " !EINTR"); break;
                    case F_SHORT_WRITE: fprintf(lgf, " !SHORT_WRITE"); break;
                    case F_SHORT_READ: fprintf(lgf, " !SHORT_READ"); break;
                    case F_TORN_WRITE: fprintf(lgf, " !TORN_WRITE"); break;
                    case F_KILL_AFTER: fprintf(lgf, " !KILL_AFTER"); break;
                    default: break;
                    }
                }
                fprintf(lgf, "\n");
                if (cur_fault && (cur_fault->kind == F_TORN_WRITE || cur_fault->kind == F_KILL_AFTER)) {
                    kill(child, SIGKILL); waitpid(child, &status, __WALL);
                    fprintf(lgf, "exit signal=9\n"); killed_by_plan = 1; break;
                }
                cur = NULL;
            }
            continue;
        }
        if (sig == SIGTRAP) {
            unsigned ev = (unsigned)status >> 16;
            if (ev == PTRACE_EVENT_EXEC) { seen_exec = 1; continue; }
            if (ev == PTRACE_EVENT_CLONE || ev == PTRACE_EVENT_FORK || ev == PTRACE_EVENT_VFORK)
                die("tracee created a thread or process; the simulated kernel only supports one task");
            continue; /* plain SIGTRAP after exec without TRACEEXEC etc. */
        }
        if (sig == SIGSTOP && !seen_exec) continue;
        pending_sig = sig; /* deliver real signals (e.g. SIGPIPE, SIGSEGV, SIGABRT) */
    }
    alarm(0);
    int unfired = 0;
    for (int k = 0; k < nfaults; k++) if (!faults[k].fired) unfired++;
    if (unfired) fprintf(lgf, "unfired-faults %d\n", unfired);
    fclose(lgf);
    lgf = NULL;
    if (bound_hit) return 4;
    if (killed_by_plan) return 3;
    return 0;
}

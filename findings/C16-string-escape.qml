import qmluic.QtWidgets
// compile with: qmluic generate-ui --foreign-types contrib/metatypes --foreign-types <sim_metatypes.json> ...
// pre-fix header: QStringLiteral("bell\u{7}") (ill-formed), QStringLiteral("a\01") (denotes U+0001, not NUL '1')
QWidget {
    id: root
    QVBoxLayout {
        SimWidget {
            id: w1
            outText: w1.flag ? "bell\u0007" : "é"
            outText2: w1.flag ? "a\u00001" : "k"
        }
    }
}

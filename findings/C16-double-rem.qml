import qmluic.QtWidgets
// pre-fix header: a1 = a0 % 2e0;   error: invalid operands of types 'double' and 'double' to binary 'operator%'
QWidget {
    id: root
    QVBoxLayout {
        SimWidget { id: w1; outReal: w2.realVal % 2.0 }
        SimWidget { id: w2 }
    }
}

import qmluic.QtWidgets
// pre-fix header: enumerator FooBarBaz1 and member functions setup/update/evalFooBarBaz1 defined twice
QWidget {
    id: root
    QVBoxLayout {
        SimWidget { id: foo; barBaz: foo.intVal + 1; barBaz1: foo.intVal + 2 }
        SimWidget { id: fooBar; baz: foo.intVal + 3 }
    }
}

import qmluic.QtWidgets
// pre-fix header: a1 = std::max(a0, 3);   error: no matching function for call to 'max(uint&, int)'
QWidget {
    id: root
    QVBoxLayout {
        SimWidget { id: w1; outU: Math.max(w2.uintVal, 3) }
        SimWidget { id: w2 }
    }
}

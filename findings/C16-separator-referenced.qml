import qmluic.QtWidgets

QWidget {
    id: root
    actions: [a1, sep, a2]
    QAction { id: a1; text: "One" }
    QAction { id: sep; separator: true }
    QAction { id: a2; text: "Two"; enabled: sep.visible }
    QVBoxLayout {
        QCheckBox { id: chk; checked: sep.visible }
    }
}

#!/bin/bash
# Confirm a sub-agent's seeded change in its scratch worktree and keep it under /verif/seeded/<name>/.
#   tools/keep_seeded.sh <worktree> <name> <property>
set -u
wt=$1; name=$2; prop=$3
out=/verif/seeded/$name
mkdir -p "$out"
cd "$wt" || exit 2
git diff -- . ':!demo.sh' ':!demo' ':!SEEDED.md' > "$out/patch.diff"
[ -s "$out/patch.diff" ] || { echo "empty patch"; exit 2; }
echo "== test suite with the change"
CARGO_NET_OFFLINE=true cargo test --workspace --no-fail-fast --offline 2>&1 | grep -E "^test result" | awk '{p+=$4; f+=$6} END {print "passed",p,"failed",f}' | tee "$out/testsuite.txt"
echo "== demo with the change (must fail)"
bash ./demo.sh > "$out/demo-with-change.log" 2>&1; rc1=$?
echo "rc=$rc1"; tail -3 "$out/demo-with-change.log"
echo "== demo without the change (must pass)"
git apply -R "$out/patch.diff" || { echo "cannot revert"; exit 2; }
bash ./demo.sh > "$out/demo-without-change.log" 2>&1; rc0=$?
echo "rc=$rc0"; tail -3 "$out/demo-without-change.log"
git apply "$out/patch.diff" || { echo "cannot re-apply"; exit 2; }
cp demo.sh "$out/" 2>/dev/null; [ -d demo ] && cp -r demo "$out/"; cp SEEDED.md "$out/" 2>/dev/null
echo "{\"property\": \"$prop\", \"demo_rc_with_change\": $rc1, \"demo_rc_without_change\": $rc0}" > "$out/confirm.json"
echo "kept in $out"

#!/bin/bash
# Run one check against a scratch worktree holding a seeded change (warm-starts its build directory from /verif's own).
#   tools/check_seeded.sh <ID> <worktree> [extra args]
id=$1; wt=$2; shift 2
H=$(/usr/bin/python3 -c "import hashlib,sys;print(hashlib.sha256(sys.argv[1].encode()).hexdigest()[:10])" "$wt")
[ -d /verif/target/qmluic-$H ] || cp -a /verif/target/qmluic /verif/target/qmluic-$H
/verif/bin/verif check $id --repo-for-selfcheck "$wt" --no-evidence "$@" 2>&1 | grep -E "violation keys|^property|HARNESS" | tail -3
rm -rf /verif/target/qmluic-$H
